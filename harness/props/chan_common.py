"""Generated channel programs on a real Gateway/WorkerGateway pair under the deterministic scheduler.
Shared by C02, C03, C04, C07, C10, C18.

A program is a list of conversations.  Each conversation is one remote_exec with a worker-side
script and an initiator-side behaviour; all initiator behaviours run in their own user threads."""
from __future__ import annotations

import random

from evh import sched as S
from evh import pair as P
from evh.common import REPO_SRC

# worker-side scripts (run by the real executetask via exec)
W_PRODUCE = """
for x in %(items)r:
    channel.send(x)
"""
W_PRODUCE_THEN_RAISE = """
for x in %(items)r:
    channel.send(x)
%(raise_)s
"""
# what the failing body / callback raises: an ordinary exception, one whose text cannot be encoded as UTF-8 (a lone surrogate, as
# in surrogate-escaped file names), one whose repr() or str() raises, and EOFError
RAISES = {
    "plain": "raise ValueError('boom-%(tag)s')",
    "surrogate": "raise ValueError('boom-%(tag)s-\\udc80')",
    "badrepr": "class ValueErrorR(ValueError):\n    def __repr__(self): raise RuntimeError('no repr')\nraise ValueErrorR('boom-%(tag)s')",
    "badstr": "class ValueErrorS(ValueError):\n    def __str__(self): raise RuntimeError('no str')\nraise ValueErrorS('boom-%(tag)s')",
    "eof": "raise EOFError('boom-%(tag)s')",
    # a message that embeds a large item (longer than any plausible cap on the error text): type and message still arrive
    "huge": "raise ValueError('boom-%(tag)s' + 'x' * 70000 + '-tail-%(tag)s')",
    # a BaseException that is neither an Exception nor SystemExit / KeyboardInterrupt (GeneratorExit, asyncio.CancelledError, ...)
    "baseexc": "class ValueErrorB(BaseException):\n    pass\nraise ValueErrorB('boom-%(tag)s')",
}
CB_RAISES = {
    "plain": "raise KeyError('cb-boom')",
    "badstr": "raise KeyErrorS('cb-boom')",
    "sysexit": "raise KeyErrorExit('cb-boom')",     # a SystemExit subclass (sys.exit() inside a callback)
}


def raise_stmt(c):
    return RAISES[c.get("exc", "plain")] % {"tag": c["tag"]}

W_PRODUCE_MID = """
for x in %(first)r:
    channel.send(x)
channel.receive()          # the initiator says go, then registers its callback while these arrive
for x in %(rest)r:
    channel.send(x)
%(tail)s
"""
W_PRODUCE_SLOW_END = """
for x in %(items)r:
    channel.send(x)
channel.gateway.execmodel.sleep(1.0)     # the initiator drops its channel object meanwhile
"""
W_HALFCLOSE = """
got = []
sub = channel.gateway.newchannel()
sub.setcallback(got.append)
channel.send(sub)
del sub                       # the object with a callback goes away: LAST_MESSAGE, the peer's end becomes send-only
channel.receive()             # 'sent': the initiator has sent its items on the sub-channel and closed it
channel.gateway.execmodel.sleep(0.5)
channel.send(got)
"""
W_SUBCHANNEL_DROPPED = """
channel.gateway.execmodel.sleep(0.3)      # the initiator sets a callback and drops its channel object meanwhile
sub = channel.gateway.newchannel()
channel.send(sub)
for x in %(items)r:
    sub.send(x)
sub.close()
channel.gateway.execmodel.sleep(0.3)
"""
W_BOTH_DROP_CB = """
import evh.pair as _p
sub = channel.gateway.newchannel()
def cb(x, tag=%(tag)r):
    _p.CURRENT.worker_notes.append((tag, 'wcb', x))
sub.setcallback(cb, endmarker='W-END')
channel.send(sub)
for x in %(items)r:
    sub.send(x)
del sub                                   # this side only keeps its callback registration
channel.receive()                         # the initiator says when it has dropped its end, too
channel.gateway.execmodel.sleep(0.5)
"""
W_CALLBACK_READOPTED = """
c2 = channel.receive()                    # the initiator registered a callback on it and dropped its object
for x in %(items)r:
    c2.send(x)
channel.send(c2)                          # the channel travels back: the initiator gets a NEW object for the same id
channel.receive()
for x in %(items2)r:
    c2.send(x)
c2.close()
"""
W_SENDONLY_ROUNDTRIP = """
import evh.pair as _p
x = channel.receive()
def cb(v, tag=%(tag)r):
    _p.CURRENT.worker_notes.append((tag, 'wcb', v))
x.setcallback(cb, endmarker='W-END')
del x                                     # only the callback registration remains: the creator's end is send-only from now on
channel.send('dropped')
y = channel.receive()                     # the creator sends its channel a second time: adopted again here
channel.send(y)                           # ... and back it goes
channel.receive()
y.send('from-worker')
del y
channel.receive()
"""
W_CONSUME = """
got = []
for i in range(%(n)d):
    got.append(channel.receive())
channel.send(('summary', got))
"""
W_CONSUME_UNTIL_EOF = """
got = []
try:
    while 1:
        got.append(channel.receive())
except EOFError:
    pass
import evh.pair as _p
_closed = channel.isclosed()
try:
    channel.send(0)
    _send = "accepted"
except OSError:
    _send = "OSError"
try:
    channel.waitclose(0)
    _wc = "returns"
except Exception as _e:
    _wc = type(_e).__name__
_p.CURRENT.worker_notes.append((%(tag)r, got, (_closed, _send, _wc)))
"""
W_CALLBACK_RAISES = """
import evh.pair as _p
sub = channel.gateway.newchannel()
def cb(x):
    _p.CURRENT.worker_notes.append((%(tag)r, 'cb', x))
    if x == %(bad)r:
        %(raise_)s
class KeyErrorS(KeyError):
    def __str__(self): raise RuntimeError('no str')
class KeyErrorExit(SystemExit):
    pass
sub.setcallback(cb)
channel.send(sub)
keep = %(keep)d
if not keep:
    del sub
channel.receive()          # the initiator says when the items are through
if keep:
    try:
        sub.waitclose(1.0)
        _p.CURRENT.worker_notes.append((%(tag)r, 'own', 'returns'))
    except Exception as e:
        _p.CURRENT.worker_notes.append((%(tag)r, 'own', type(e).__name__))
"""
W_SUBCHANNEL = """
sub = channel.gateway.newchannel()
if %(chreconf)r == "before":
    sub.reconfigure()            # the documented per-channel switch (default values), before the peer knows the channel
if %(bigcarrier)r:
    channel.send(("c" * 70000, sub))     # the channel travels inside a large item; what is sent on it right away must not depend on when the carrier is taken
else:
    channel.send(sub)
if %(chreconf)r == "after":
    sub.reconfigure()
for x in %(items)r:
    sub.send(x)
sub.close()
back = channel.receive()
for x in %(items2)r:
    back.send(x)
if %(backend)r == "drop":
    del back                     # dropping the last reference closes it like close() does
else:
    back.close()
"""


def gen_items(rng, n=None, big=True):
    n = rng.choice([0, 1, 2, 3, 5, 8]) if n is None else n
    items = [rng.choice([i, str(i), (i, None), [i], b"b%d" % i]) for i in range(n)]
    if big and items and rng.random() < 0.15:
        # one payload beyond any plausible small-message threshold (frames of concurrent senders must not interleave)
        items[rng.randrange(len(items))] = ("BIG", 65 + rng.randrange(26), rng.choice([9000, 70000]))
    return items


def expand(x):
    """("BIG", byte, n) stands for n equal bytes (kept symbolic in programs and replays)"""
    if isinstance(x, (tuple, list)) and len(x) == 3 and x[0] == "BIG":
        return bytes([x[1]]) * x[2]
    return x


def compact(v):
    """for examples / replays: long byte strings as a short marker"""
    if isinstance(v, (bytes, bytearray)) and len(v) > 200:
        return "<%d bytes %r..>" % (len(v), bytes(v[:4]))
    if isinstance(v, dict):
        return {k: compact(x) for k, x in v.items()}
    if isinstance(v, (list, tuple)):
        return [compact(x) for x in v]
    return v


def expand_all(items):
    return [expand(x) for x in items]


def gen_conversation(rng, kinds, tag):
    kind = rng.choice(kinds)
    c = {"kind": kind, "tag": tag}
    if kind == "produce_raise" and rng.random() < 0.4:
        c["exc"] = rng.choice(["surrogate", "badrepr", "badstr", "eof", "baseexc", "huge"])
    if kind in ("produce", "produce_raise"):
        c["items"] = gen_items(rng)
        c["consume"] = rng.choice(["receive", "iter", "iter_and_receiver", "callback", "callback_late", "callback_mid", "callback_end_raises", "two_receivers", "waitclose_then_receive", "poll"] + (["callback_dropped"] if kind == "produce" else []))
    elif kind == "consume":
        c["items"] = gen_items(rng)
    elif kind == "status":
        c["polls"] = rng.randint(1, 4)
    elif kind == "consume_eof":
        c["items"] = gen_items(rng)
        c["end"] = rng.choice(["close", "drop", "drop_cb"])
    elif kind == "callback_raises":
        c["items"] = list(range(rng.randint(1, 4)))
        c["bad"] = rng.choice(c["items"])
        c["keep"] = rng.choice([0, 1])
        if rng.random() < 0.4:
            c["exc"] = rng.choice(["badstr", "sysexit"])
        if not c["keep"] and rng.random() < 0.4:
            c["stderr"] = "closed"
    elif kind == "both_drop_cb":
        c["items"] = gen_items(rng, rng.randint(0, 3), big=False)
    elif kind == "sendonly_roundtrip":
        pass
    elif kind == "callback_readopted":
        c["items"] = gen_items(rng, rng.randint(0, 3), big=False)
        c["items2"] = gen_items(rng, rng.randint(1, 3), big=False)
        c["keep"] = rng.choice([1, 1, 0])
    elif kind == "subchannel_dropped":
        c["items"] = gen_items(rng, rng.randint(0, 3), big=False)
    elif kind == "halfclose":
        c["items"] = gen_items(rng, rng.randint(0, 3), big=False)
    elif kind == "subchannel":
        c["items"] = gen_items(rng, rng.randint(0, 3))
        c["items2"] = gen_items(rng, rng.randint(0, 3))
        if rng.random() < 0.3:
            c["bigcarrier"] = True
        if rng.random() < 0.5:
            # Channel.reconfigure (default values: no change of meaning) before or after the channel travels
            c["chreconf"] = rng.choice(["before", "after"])
            c["backend"] = rng.choice(["close", "drop"])
    return c


def worker_source(c):
    c = dict(c)
    for key in ("items", "items2"):
        if key in c:
            c[key] = expand_all(c[key])
    k = c["kind"]
    if k in ("produce", "produce_raise") and c.get("consume") == "callback_mid":
        h = len(c["items"]) // 2
        return W_PRODUCE_MID % {"first": c["items"][:h], "rest": c["items"][h:], "tail": raise_stmt(c) if k == "produce_raise" else "pass"}
    if k == "produce" and c.get("consume") == "callback_dropped":
        return W_PRODUCE_SLOW_END % {"items": c["items"]}
    if k == "produce":
        return W_PRODUCE % {"items": c["items"]}
    if k == "produce_raise":
        return W_PRODUCE_THEN_RAISE % {"items": c["items"], "raise_": raise_stmt(c)}
    if k == "consume":
        return W_CONSUME % {"n": len(c["items"])}
    if k == "consume_eof":
        return W_CONSUME_UNTIL_EOF % {"tag": c["tag"]}
    if k == "callback_raises":
        return W_CALLBACK_RAISES % {"tag": c["tag"], "bad": c["bad"], "keep": c["keep"], "raise_": CB_RAISES[c.get("exc", "plain")]}
    if k == "sendonly_roundtrip":
        return W_SENDONLY_ROUNDTRIP % {"tag": c["tag"]}
    if k == "callback_readopted":
        return W_CALLBACK_READOPTED % {"items": c["items"], "items2": c["items2"]}
    if k == "both_drop_cb":
        return W_BOTH_DROP_CB % {"tag": c["tag"], "items": c["items"]}
    if k == "subchannel_dropped":
        return W_SUBCHANNEL_DROPPED % {"items": c["items"]}
    if k == "halfclose":
        return W_HALFCLOSE
    if k == "subchannel":
        return W_SUBCHANNEL % {"items": c["items"], "items2": c["items2"], "chreconf": c.get("chreconf"), "backend": c.get("backend", "close"), "bigcarrier": bool(c.get("bigcarrier"))}
    raise ValueError(k)


def _complete_frames(frames, cut):
    """(message code, channel id) of every frame the worker wrote that lies entirely before the cut: what HAD ARRIVED COMPLETELY"""
    import struct

    out, acc = [], 0
    for f in frames:
        acc += len(f)
        if cut is not None and acc > cut:
            break
        if len(f) >= 9:
            code, cid, _n = struct.unpack("!bii", f[:9])
            out.append((code, cid))
    return out


def run_program(prog, chooser, seed, line_budget=0, cut_w2i=None, remote_backend="thread", io_kind="popen", cut_both=False):
    """returns observations per conversation + gateway-level facts"""
    from execnet.gateway_base import RemoteError

    sc = S.Sched(chooser, line_budget=line_budget, max_steps=400000)
    pr = P.Pair(sc, remote_backend=remote_backend, seed=seed, cut_w2i=cut_w2i, io_kind=io_kind, cut_both=cut_both)
    pr.worker_notes = []
    P.CURRENT = pr
    gw = pr.gw
    obs = {}
    base_channels = None

    def endstate(ch, o):
        """what every further receive / waitclose / send on the channel does"""
        try:
            ch.receive(timeout=0.01)
            o["after"] = "item"
        except EOFError:
            o["after"] = "EOFError"
        except RemoteError:
            o["after"] = "RemoteError-again"
        except Exception as e:  # noqa
            o["after"] = type(e).__name__
        try:
            ch.waitclose(timeout=0.01)
            o["waitclose_after"] = "returns"
        except Exception as e:  # noqa
            o["waitclose_after"] = type(e).__name__

    def consume(c, ch, o):
        mode = c["consume"]
        o["got"] = []
        o["end"] = None
        try:
            if mode == "waitclose_then_receive":
                try:
                    ch.waitclose(timeout=20)
                    o["waitclose"] = "returns"
                except RemoteError as e:
                    o["waitclose"] = "RemoteError"
                    o["errtext"] = str(e)
                except EOFError:
                    o["waitclose"] = "EOFError"   # connection lost; queued items are still receivable
            if mode in ("receive", "two_receivers", "waitclose_then_receive"):
                while 1:
                    o["got"].append(ch.receive(timeout=20))
            elif mode == "poll":
                # a receiver that polls with a time-out instead of blocking: time-outs may come at any moment, but never an
                # EOFError with items still to come
                o["poll"] = []
                eofs = 0
                for _ in range(600):
                    try:
                        o["got"].append(ch.receive(timeout=0))
                        o["poll"].append("item")
                    except ch.TimeoutError:
                        pr.em_i.sleep(0.01)
                    except EOFError:
                        o["poll"].append("EOF")
                        eofs += 1
                        if eofs >= 3:
                            break
                raise EOFError()
            elif mode == "iter_and_receiver":
                for x in ch:
                    o["got"].append(x)
                o["end"] = "EOFError"
            elif mode == "iter":
                for x in ch:
                    o["got"].append(x)
                o["end"] = "EOFError"
            elif mode == "callback_end_raises":
                END = ("END",)

                def cb(x):
                    o["got"].append(x)
                    if x == END:
                        raise RuntimeError("callback fails on its endmarker")

                try:
                    ch.setcallback(cb, endmarker=END)
                except RuntimeError:
                    o["raised_in_caller"] = True   # the channel was closed already: setcallback itself delivers the endmarker
                try:
                    ch.waitclose(timeout=20)
                    o["end"] = "closed"
                except RemoteError as e:
                    o["end"] = "RemoteError"
                    o["errtext"] = str(e)
                except EOFError:
                    o["end"] = "EOFError"
                return
            elif mode == "callback_dropped":
                END = ("END",)
                ch.setcallback(lambda x: o["got"].append(x), endmarker=END)
                o["dropped"] = True
                return "drop"
            elif mode == "callback_raises_local":
                END = ("END",)

                def cb(x):
                    o["got"].append(x)
                    if len(o["got"]) == 2:
                        raise ValueError("local-callback-boom")

                ch.setcallback(cb, endmarker=END)
                try:
                    ch.waitclose(timeout=20)
                    o["end"] = "closed"
                except RemoteError as e:
                    o["end"] = "RemoteError"
                    o["errtext"] = str(e)
                except EOFError:
                    o["end"] = "EOFError"
                return
            elif mode in ("callback", "callback_late", "callback_mid"):
                if mode in ("callback_late", "callback_mid"):
                    pr.em_i.sleep(0.5)  # lets items queue up first (virtual time)
                if mode == "callback_mid":
                    try:
                        ch.send("go")   # the rest arrives while setcallback replays the queue
                    except OSError:
                        o["go_refused"] = True   # connection already lost
                END = ("END",)

                def _cb(x, ch=ch):
                    if x == END:
                        # the callback learns about the end: the channel reports closed (unless the connection was lost: send-only)
                        o["closed_at_endmarker"] = ch.isclosed()
                    o["got"].append(x)

                ch.setcallback(_cb, endmarker=END)
                try:
                    ch.receive(timeout=0)
                    o["receive_after_setcallback"] = "accepted"
                except OSError:
                    o["receive_after_setcallback"] = "OSError"
                except Exception as e:  # noqa
                    o["receive_after_setcallback"] = type(e).__name__
                try:
                    ch.waitclose(timeout=20)
                    o["end"] = "closed"
                except RemoteError as e:
                    o["end"] = "RemoteError"
                    o["errtext"] = str(e)
                except EOFError:
                    o["end"] = "EOFError"
                o["callback_calls_at_waitclose"] = len(o["got"])   # nothing may be handed to the callback after waitclose returned
                return
        except EOFError:
            o["end"] = "EOFError"
        except RemoteError as e:
            o["end"] = "RemoteError"
            o["errtext"] = str(e)
        except ch.TimeoutError:
            o["end"] = "Timeout"
        except OSError as e:
            o["end"] = "OSError:" + str(e)[:40]
        endstate(ch, o)

    def second_receiver(ch, o2):
        o2["got"] = []
        try:
            while 1:
                o2["got"].append(ch.receive(timeout=20))
        except EOFError:
            o2["end"] = "EOFError"
        except RemoteError:
            o2["end"] = "RemoteError"
        except Exception as e:  # noqa
            o2["end"] = type(e).__name__

    def conversation(i, c):
        o = obs[i] = {"kind": c["kind"]}
        if c["kind"] == "status":
            # status polling next to the other conversations: it uses a channel of its own for every call
            o["id"] = -1 - i
            o["status"] = []
            for _ in range(c.get("polls", 3)):
                try:
                    st = gw.remote_status()
                    o["status"].append(("ok", st.numchannels >= 0))
                except Exception as e:  # noqa
                    o["status"].append((type(e).__name__,))
                pr.em_i.sleep(0.05)
            return
        try:
            ch = gw.remote_exec(worker_source(c))
        except OSError as e:
            o["remote_exec"] = "OSError"
            return
        o["id"] = ch.id
        k = c["kind"]
        if k in ("produce", "produce_raise"):
            if c["consume"] in ("two_receivers", "iter_and_receiver"):
                o2 = obs["%d:second" % i] = {"kind": "second"}
                sc.spawn(second_receiver, (ch, o2), name=f"second{i}")
            if consume(c, ch, o) == "drop":
                del ch                     # the Channel object goes away; only the callback registration remains
                pr.em_i.sleep(3.0)         # the worker's body ends meanwhile
        elif k == "consume":
            for x in c["items"]:
                try:
                    ch.send(expand(x))
                except OSError:
                    o["send_refused"] = True   # connection lost meanwhile
                    break
            try:
                o["summary"] = ch.receive(timeout=20)
            except Exception as e:  # noqa
                o["summary"] = ("EXC", type(e).__name__)
            try:
                ch.waitclose(timeout=20)
                o["end"] = "closed"
            except Exception as e:  # noqa
                o["end"] = type(e).__name__
            try:
                ch.send("late")
                o["send_after_close"] = "accepted"
            except OSError:
                o["send_after_close"] = "OSError"
        elif k == "consume_eof":
            for x in c["items"]:
                try:
                    ch.send(expand(x))
                except OSError:
                    o["send_refused"] = True
                    break
            if c["end"] == "close":
                ch.close()
                o["isclosed"] = ch.isclosed()
                ch.close()  # second close is a no-op
                try:
                    ch.send("late")
                    o["send_after_close"] = "accepted"
                except OSError:
                    o["send_after_close"] = "OSError"
                try:
                    ch.waitclose(timeout=0.01)
                    o["waitclose_after"] = "returns"
                except Exception as e:  # noqa
                    o["waitclose_after"] = type(e).__name__
            elif c["end"] == "drop_cb":
                # the conversation is ended by dropping a channel that has a receiver callback (CHANNEL_LAST_MESSAGE)
                ch.setcallback(lambda x: None)
                del ch
            else:
                del ch
        elif k == "callback_raises":
            try:
                sub = ch.receive(timeout=20)
            except Exception as e:  # noqa
                o["end"] = "no-subchannel:" + type(e).__name__
                return
            for x in c["items"]:
                try:
                    sub.send(x)
                except OSError:
                    o.setdefault("send_refused_after", x)
                    break
            pr.em_i.sleep(0.5)
            try:
                sub.waitclose(timeout=20)
                o["end"] = "closed"
            except RemoteError as e:
                o["end"] = "RemoteError"
                o["errtext"] = str(e)
            except Exception as e:  # noqa
                o["end"] = type(e).__name__
            endstate(sub, o)
            try:
                ch.send("done")
                ch.waitclose(timeout=20)
                o["outer"] = "closed"
            except Exception as e:  # noqa
                o["outer"] = type(e).__name__
        elif k == "sendonly_roundtrip":
            # a channel of this side in the send-only state (the peer keeps only a callback for it) travels to the peer again and
            # comes back: it arrives as an OPEN channel object connected to the same conversation, in both directions
            try:
                mine = gw.newchannel()
                o["subid"] = mine.id
                ch.send(mine)
                o["dropped"] = ch.receive(timeout=20)
                pr.em_i.sleep(0.3)                       # the peer's LAST_MESSAGE has arrived: send-only
                ch.send(mine)
                back = ch.receive(timeout=20)
                o["back"] = [type(back).__name__, getattr(back, "id", None) == mine.id, bool(getattr(back, "isclosed", lambda: True)())]
                mine.send("one")
                ch.send("go")
                try:
                    o["got"] = back.receive(timeout=20)
                except Exception as e:  # noqa
                    o["got"] = "EXC:" + type(e).__name__
                try:
                    back.send("two")
                    o["send_back"] = "ok"
                except Exception as e:  # noqa
                    o["send_back"] = "EXC:" + type(e).__name__
                pr.em_i.sleep(0.3)
                back.close()
                ch.send("end")
                ch.waitclose(timeout=20)
                o["end"] = "closed"
            except Exception as e:  # noqa
                o["end"] = type(e).__name__ + ":" + str(e)[:60]
            mine = back = None
        elif k == "callback_readopted":
            # a callback stays registered for an id whose Channel object is dropped; the peer hands the channel back inside an
            # item, so a new object for the same id appears here: the callback still gets every item, then its endmarker
            box = []
            sub = gw.newchannel()
            o["subid"] = sub.id
            sub.setcallback(box.append, endmarker=("END",))
            ch.send(sub)
            del sub
            try:
                again = ch.receive(timeout=20)
                o["again"] = type(again).__name__ + ":" + str(getattr(again, "id", None) == o["subid"])
                if not c.get("keep"):
                    del again
                ch.send("go on")
                ch.waitclose(timeout=20)
                pr.em_i.sleep(0.5)
                o["end"] = "closed"
            except Exception as e:  # noqa
                o["end"] = type(e).__name__
            o["got"] = list(box)
            again = None
        elif k == "both_drop_cb":
            # both ends register a callback on the sub-channel and then drop their Channel object: each __del__ tells the other side
            # (LAST_MESSAGE), which forgets the id and hands its callback the endmarker
            try:
                sub = ch.receive(timeout=20)
            except Exception as e:  # noqa
                o["end"] = "no-subchannel:" + type(e).__name__
                return
            o["got"] = []
            sub.setcallback(o["got"].append, endmarker=("END",))
            o["subid"] = sub.id
            del sub
            import gc

            gc.collect()
            pr.em_i.sleep(0.5)
            try:
                ch.send("dropped")
                ch.waitclose(timeout=20)
                o["end"] = "closed"
            except Exception as e:  # noqa
                o["end"] = type(e).__name__
        elif k == "subchannel_dropped":
            box = []
            ch.setcallback(box.append, endmarker=("END",))
            del ch                                       # only the callback registration remains
            pr.em_i.sleep(1.5)
            o["carrier_got"] = [type(x).__name__ if type(x).__name__ == "Channel" else x for x in box]
            subs = [x for x in box if type(x).__name__ == "Channel"]
            o["got"] = []
            if subs:
                try:
                    while 1:
                        o["got"].append(subs[0].receive(timeout=20))
                except EOFError:
                    o["end"] = "EOFError"
                except Exception as e:  # noqa
                    o["end"] = type(e).__name__
        elif k == "halfclose":
            try:
                sub = ch.receive(timeout=20)
                pr.em_i.sleep(0.5)                       # the peer's LAST_MESSAGE arrives: our end is send-only now
                o["receiveclosed_before"] = sub._receiveclosed.is_set()
                o["isclosed_before"] = sub.isclosed()
                for x in c["items"]:
                    sub.send(expand(x))                  # sending is still allowed in the send-only state
                sub.close()
                o["isclosed_after_close"] = sub.isclosed()
                try:
                    sub.send("late")
                    o["send_after_close"] = "accepted"
                except OSError:
                    o["send_after_close"] = "OSError"
                try:
                    sub.receive(timeout=0.01)
                    o["receive_after_close"] = "item"
                except EOFError:
                    o["receive_after_close"] = "EOFError"
                except Exception as e:  # noqa
                    o["receive_after_close"] = type(e).__name__
                ch.send("sent")
                o["peer_got"] = ch.receive(timeout=20)
                ch.waitclose(timeout=20)
                o["end"] = "closed"
            except Exception as e:  # noqa
                o["end"] = type(e).__name__ + ":" + str(e)[:60]
        elif k == "subchannel":
            try:
                if c.get("bigcarrier"):
                    pr.em_i.sleep(0.5)                   # the carrier item and everything sent on the sub-channel have arrived
                sub = ch.receive(timeout=20)
                if c.get("bigcarrier"):
                    o["carrier_ok"] = isinstance(sub, tuple) and len(sub) == 2 and sub[0] in ("c" * 70000, b"c" * 70000)   # bytes under a gateway reconfigured with py3str_as_py2str
                    sub = sub[1] if isinstance(sub, tuple) and len(sub) == 2 else sub
                o["sub_is_channel"] = type(sub).__name__ == "Channel"
                o["sub_id"] = sub.id
                o["got"] = []
                try:
                    while 1:
                        o["got"].append(sub.receive(timeout=20))
                except EOFError:
                    pass
                back = gw.newchannel()
                o["back_id"] = back.id
                o["back_got"] = []
                if c.get("chreconf") == "before":
                    back.reconfigure()
                ch.send(back)
                if c.get("chreconf") == "after":
                    back.reconfigure()
                try:
                    while 1:
                        o["back_got"].append(back.receive(timeout=20))
                except EOFError:
                    pass
                ch.waitclose(timeout=20)
                o["end"] = "closed"
            except Exception as e:  # noqa
                o["end"] = type(e).__name__ + ":" + str(e)[:60]

    done = []

    def user(i, c):
        try:
            conversation(i, c)
        finally:
            done.append(i)

    final = {}

    def controller():
        # wait (virtual time) until all conversations are over, then look at the gateway
        for _ in range(400):
            if len(done) == len(prog):
                break
            pr.em_i.sleep(0.25)
        pr.em_i.sleep(1.0)
        import gc

        gc.collect()
        final["hasreceiver"] = gw.hasreceiver()
        final["channels_left"] = sorted(gw._channelfactory._channels.keys())
        final["callbacks_left"] = sorted(gw._channelfactory._callbacks.keys())
        final["worker_channels_left"] = sorted(pr.worker._channelfactory._channels.keys())
        final["worker_callbacks_left"] = sorted(pr.worker._channelfactory._callbacks.keys())
        if cut_w2i is not None:
            final["cut_hit_at_checks"] = pr.w2i.cut_hit      # the break may lie behind the last byte this program ever writes
            final["error_recorded"] = type(getattr(gw, "_error", None)).__name__
            for name, f in (("send", lambda: spare.send(1)), ("newchannel", lambda: gw.newchannel()), ("remote_exec", lambda: gw.remote_exec("pass"))):
                try:
                    f()
                    final["after_loss_" + name] = "accepted"
                except OSError:
                    final["after_loss_" + name] = "OSError"
                except Exception as e:  # noqa
                    final["after_loss_" + name] = type(e).__name__
            # a channel that was open when the connection broke: later receive / waitclose raise EOFError
            for name, f in (("receive", lambda: spare.receive(timeout=1)), ("waitclose", lambda: spare.waitclose(timeout=1))):
                try:
                    f()
                    final["after_loss_" + name] = "returns"
                except Exception as e:  # noqa
                    final["after_loss_" + name] = type(e).__name__
        sc.stop()

    spare = gw.newchannel() if cut_w2i is not None else None
    if any(c.get("reconf") for c in prog):
        # the documented string coercion switch for the whole gateway, set before any conversation starts
        def setup():
            gw.reconfigure(py3str_as_py2str=True)
            for i, c in enumerate(prog):
                sc.spawn(user, (i, c), name=f"user{i}")
            sc.spawn(controller, name="controller")

        sc.spawn(setup, name="setup")
    else:
        for i, c in enumerate(prog):
            sc.spawn(user, (i, c), name=f"user{i}")
        sc.spawn(controller, name="controller")
    if line_budget:
        S.enable_line_preemption(sc, REPO_SRC)
    import sys as _sys

    _saved_stderr = _sys.stderr
    if any(c.get("stderr") == "closed" for c in prog):
        # a process whose stderr is gone (daemonised, closed by the application): warnings about unclaimed remote errors have
        # nowhere to go, which must not matter to the gateway
        import io as _io

        _f = _io.StringIO()
        _f.close()
        _sys.stderr = _f
    try:
        res = sc.run(timeout=120)
    finally:
        _sys.stderr = _saved_stderr
        if line_budget:
            S.disable_line_preemption()
        pr.restore()
    errs = [repr(t.exc)[:200] for t in sc.threads if t.exc is not None]
    return {"result": res, "obs": obs, "final": final, "schedule": sc.trace, "worker_notes": pr.worker_notes, "thread_errors": errs,
            "clock": sc.clock, "done": sorted(done), "w2i_total": pr.w2i.total_written, "w2i_frames": [len(f) for f in pr.w2i.frames_written],
            "w2i_complete": _complete_frames(pr.w2i.frames_written, cut_w2i)}


def canon_item(x):
    x = expand(x)
    if isinstance(x, (bytes, bytearray)) and len(x) > 200:
        return "bytes:%d:%r" % (len(x), bytes(x[:4]))
    return repr(x)


def check_conversation(ck, prefix, c, o, out, ex, lossy=False):
    """the properties C02 / C03 / C07 / C10 / C18 on one finished conversation (no connection loss)"""
    k = c["kind"]
    if k == "status":
        return
    if k in ("produce", "produce_raise"):
        got = o.get("got")
        want = c["items"]
        second = out["obs"].get("%d:second" % ex["index"])
        if second is not None:
            # two concurrent receivers share the items: together exactly the sent items, each in order
            allgot = sorted(map(canon_item, got + second.get("got", [])))
            if allgot != sorted(map(canon_item, want)):
                ck.fail(prefix + "items-lost-or-duplicated:two-receivers", ex)
            for part in (got, second.get("got", [])):
                idx = [list(map(canon_item, want)).index(canon_item(x)) for x in part if canon_item(x) in map(canon_item, want)]
                if idx != sorted(idx):
                    ck.fail(prefix + "items-out-of-order:two-receivers", ex)
            ends = (o.get("end"), second.get("end"))
            if k == "produce" and ends != ("EOFError", "EOFError"):
                ck.fail(prefix + "concurrent-receivers-do-not-all-see-EOF:" + str(ends), ex)
            if k == "produce_raise" and sorted(map(str, ends)) != ["EOFError", "RemoteError"]:
                ck.fail(prefix + "remote-error-not-delivered-exactly-once:" + str(ends) + (":body-raised-EOFError" if c.get("exc") == "eof" else ""), ex)
            return
        mode = c["consume"]
        if mode == "callback_end_raises":
            END = ("END",)
            if list(map(canon_item, [x for x in got if x != END])) != list(map(canon_item, want)) or got.count(END) != 1:
                ck.fail(prefix + "callback-items-differ:callback_end_raises", ex)
            if o.get("end") not in ("closed", "RemoteError"):
                ck.fail(prefix + "callback-error-on-endmarker-disturbs-the-channel:" + str(o.get("end")), ex)
            return
        if mode == "callback_dropped":
            END = ("END",)
            items = [x for x in got if x != END]
            if list(map(canon_item, items)) != list(map(canon_item, want)):
                ck.fail(prefix + "callback-items-differ:callback_dropped", ex)
            if got.count(END) != 1 or got[-1:] != [END]:
                ck.fail(prefix + "endmarker-never-delivered-after-channel-object-dropped", ex)
            return
        if mode in ("callback", "callback_late", "callback_mid"):
            END = ("END",)
            items = [x for x in got if x != END]
            if list(map(canon_item, items)) != list(map(canon_item, want)):
                ck.fail(prefix + f"callback-items-differ:{mode}", ex)
            if got.count(END) != 1 or got[-1:] != [END]:
                ck.fail(prefix + f"callback-endmarker-not-exactly-once-at-end:{mode}", ex)
            elif not lossy and o.get("closed_at_endmarker") is False:
                ck.fail(prefix + f"peer-state-after-observed-close-wrong:isclosed-false-inside-the-endmarker-callback:{mode}", ex)
            elif o.get("callback_calls_at_waitclose") is not None and o["callback_calls_at_waitclose"] != len(got):
                ck.fail(prefix + f"waitclose-returned-before-the-last-callback-calls:{mode}", ex)
            if o.get("receive_after_setcallback") != "OSError":
                ck.fail(prefix + "receive-after-setcallback-not-refused", ex)
            if k == "produce_raise" and o.get("end") != "RemoteError":
                ck.fail(prefix + "remote-error-not-raised-by-waitclose" + (":body-raised-EOFError" if c.get("exc") == "eof" else ""), ex)
            return
        if mode == "poll" and "EOF" in o.get("poll", []) and "item" in o["poll"][o["poll"].index("EOF"):]:
            ck.fail(prefix + "no-repeated-EOFError-after-close:an-item-arrived-after-a-timed-receive-raised-EOFError", ex)
        if list(map(canon_item, got)) != list(map(canon_item, want)):
            ck.fail(prefix + f"items-differ:{mode}", ex)
        if k == "produce":
            if mode == "waitclose_then_receive" and o.get("waitclose") != "returns":
                ck.fail(prefix + "waitclose-raised-without-error", ex)
            if o.get("end") != "EOFError" or o.get("after") != "EOFError":
                # also after iterating to the end: the ENDMARKER must still be there for every later receive
                ck.fail(prefix + f"no-repeated-EOFError-after-close:{mode}:{o.get('end')}:{o.get('after')}", ex)
            if o.get("waitclose_after") != "returns":
                ck.fail(prefix + "waitclose-after-close-does-not-return:" + str(o.get("waitclose_after")), ex)
        else:
            # the error exactly once (receive or the earlier waitclose), after all items, then EOFError
            nerr = int(o.get("end") == "RemoteError") + int(o.get("waitclose") == "RemoteError")
            if nerr != 1:
                ck.fail(prefix + f"remote-error-not-exactly-once:{mode}:{o.get('end')}:{o.get('waitclose')}" + (":body-raised-EOFError" if c.get("exc") == "eof" else ""), ex)
            elif (("EOFError" if c.get("exc") == "eof" else "ValueError") not in o.get("errtext", "")
                  or (c.get("exc") != "badstr" and ("boom-%s" % c["tag"]) not in o.get("errtext", ""))
                  or (c.get("exc") == "huge" and ("-tail-%s" % c["tag"]) not in o.get("errtext", ""))):
                ck.fail(prefix + "remote-error-text-lacks-type-or-message", ex)
            if mode != "iter" and o.get("after") != "EOFError":
                ck.fail(prefix + "after-remote-error-not-EOFError:" + str(o.get("after")), ex)
    elif k == "consume":
        sm = o.get("summary")
        if not (isinstance(sm, (tuple, list)) and len(sm) == 2 and sm[0] in ("summary", "b'summary'", b"summary") and list(map(canon_item, sm[1])) == list(map(canon_item, c["items"]))):
            ck.fail(prefix + "worker-did-not-receive-what-was-sent", ex)
        if o.get("end") != "closed" or o.get("send_after_close") != "OSError":
            ck.fail(prefix + f"after-exec-end:{o.get('end')}:{o.get('send_after_close')}", ex)
    elif k == "consume_eof":
        notes = [n for n in out["worker_notes"] if n[0] == c["tag"] and len(n) == 3 and n[1] != "cb"]
        if len(notes) != 1 or list(map(canon_item, notes[0][1])) != list(map(canon_item, c["items"])):
            ck.fail(prefix + f"items-before-{c['end']}-not-received-then-EOF", ex)
        elif tuple(notes[0][2]) != ((False, "accepted", "returns") if c["end"] == "drop_cb" else (True, "OSError", "returns")):
            # the peer has observed the close (EOFError): isclosed is true, send raises OSError, waitclose returns at once
            ck.fail(prefix + "peer-state-after-observed-close-wrong:%s" % (tuple(notes[0][2]),), ex)
        if c["end"] == "close" and (o.get("isclosed") is not True or o.get("send_after_close") != "OSError" or o.get("waitclose_after") != "returns"):
            ck.fail(prefix + "closing-side-state-wrong", ex)
    elif k == "callback_raises":
        seen = [n[2] for n in out["worker_notes"] if n[0] == c["tag"] and n[1] == "cb"]
        upto = c["items"][: c["items"].index(c["bad"]) + 1]
        if seen[: len(upto)] != upto:
            ck.fail(prefix + "callback-did-not-see-items-in-order", ex)
        if o.get("outer") != "closed":
            ck.fail(prefix + "callback-error-disturbed-other-channel:" + str(o.get("outer")), ex)
        if not c["keep"] and o.get("end") != "RemoteError":
            ck.fail(prefix + "callback-error-not-reported-to-peer-in-send-only-state:" + str(o.get("end")), ex)
        if c["keep"]:
            if o.get("end") != "RemoteError" or "KeyError" not in o.get("errtext", "") or (c.get("exc") != "badstr" and "cb-boom" not in o.get("errtext", "")):
                ck.fail(prefix + f"callback-error-not-reported-to-peer:{o.get('end')}", ex)
            if o.get("after") != "EOFError":
                ck.fail(prefix + "callback-error-more-than-once:" + str(o.get("after")), ex)
            own = [n[2] for n in out["worker_notes"] if n[0] == c["tag"] and n[1] == "own"]
            if own != ["RemoteError"]:
                ck.fail(prefix + "callback-error-failing-side-not-closed-with-RemoteError:" + str(own), ex)
    elif k == "sendonly_roundtrip":
        _t = lambda v: v.decode() if isinstance(v, bytes) else v   # noqa  (text arrives as bytes under a gateway reconfigured with py3str_as_py2str)
        wcb = [_t(n[2]) for n in out["worker_notes"] if n[0] == c["tag"] and n[1] == "wcb"]
        if o.get("end") != "closed" or o.get("back") != ["Channel", True, False] or _t(o.get("got")) != "from-worker" or o.get("send_back") != "ok" or wcb[:2] != ["one", "two"]:
            ck.fail(prefix + "channel-over-channel-cross-connected-or-lossy:send-only-channel-came-back", {**ex, "worker_callback_saw": wcb})
    elif k == "callback_readopted":
        want = list(map(canon_item, c["items"] + c["items2"])) + [canon_item(("END",))]
        if o.get("end") != "closed" or o.get("again") != "Channel:True":
            ck.fail(prefix + "callback-readopted-conversation-failed:%s:%s" % (o.get("end"), o.get("again")), ex)
        elif list(map(canon_item, o.get("got", []))) != want:
            ck.fail(prefix + "callback-items-differ-after-channel-came-back", ex)
    elif k == "subchannel_dropped":
        cg = o.get("carrier_got") or []
        if cg[:1] != ["Channel"] or cg[-1:] not in ([("END",)], [["END"]]):
            ck.fail(prefix + "channel-over-dropped-carrier-does-not-arrive:" + repr(cg)[:60], ex)
        elif list(map(canon_item, o.get("got", []))) != list(map(canon_item, c["items"])) or o.get("end") != "EOFError":
            ck.fail(prefix + "channel-over-channel-cross-connected-or-lossy", ex)
    elif k == "halfclose":
        if o.get("end") != "closed":
            ck.fail(prefix + "halfclose-conversation-failed:" + str(o.get("end")), ex)
            return
        if o.get("isclosed_after_close") is not True or o.get("send_after_close") != "OSError" or o.get("receive_after_close") != "EOFError":
            ck.fail(prefix + "close-from-send-only-state-incomplete:%s:%s:%s" % (o.get("isclosed_after_close"), o.get("send_after_close"), o.get("receive_after_close")), ex)
        if list(map(canon_item, o.get("peer_got") or [])) != list(map(canon_item, c["items"])):
            ck.fail(prefix + "items-sent-in-send-only-state-lost", ex)
    elif k == "subchannel":
        if o.get("end") != "closed" or not o.get("sub_is_channel") or o.get("carrier_ok") is False:
            ck.fail(prefix + "subchannel-conversation-failed:" + str(o.get("end")), ex)
            if str(o.get("end")).startswith("TimeoutError") and o.get("sub_is_channel"):
                # the channel arrived but what was sent on it (items, or its close) never did: lost on the way
                ck.fail(prefix + "channel-over-channel-cross-connected-or-lossy:receive-blocked", ex)
            return
        if list(map(canon_item, o.get("got", []))) != list(map(canon_item, c["items"])) or list(map(canon_item, o.get("back_got", []))) != list(map(canon_item, c["items2"])):
            ck.fail(prefix + "channel-over-channel-cross-connected-or-lossy", ex)
        if o["sub_id"] % 2 != 0 or o["back_id"] % 2 != 1 or o["id"] % 2 != 1:
            ck.fail(prefix + "channel-id-parity-wrong", ex)


ALL_KINDS = ["produce", "produce_raise", "consume", "consume_eof", "callback_raises", "subchannel", "halfclose", "subchannel_dropped", "both_drop_cb", "callback_readopted", "sendonly_roundtrip"]


def run_property(prop, tier, seed, replay, kinds_weight, prefix_filter, rule, assumptions, nprog_quick=140, extra=None):
    """common driver: obligations + generated programs x schedules on the real pair + monitors.
    prefix_filter: which monitor signatures belong to this property (all monitors run; foreign ones are reported under their own property)"""
    from evh.common import Check

    ck = Check(prop, tier, seed)
    ck.assumptions += assumptions
    ok = ck.prepare(need_model=True)
    rng = ck.rng
    runs = []
    if replay and replay["example"].get("prog"):
        ex = replay["example"]
        runs.append((ex["prog"], ex["schedule"], ex.get("seed", 0), ex.get("line_budget", 0)))
    elif not replay:
        n = nprog_quick if tier == "quick" else nprog_quick * 25
        for _ in range(n):
            prog = [gen_conversation(rng, kinds_weight, "t%d" % i) for i in range(rng.randint(1, 3))]
            if rng.random() < 0.12 and not any(c["kind"] == "status" for c in prog):
                # a gateway reconfigured with py3str_as_py2str=True (status polling excluded: the keys of the status dict are text); items without text (text would arrive as bytes)
                prog[0]["reconf"] = True
                for c in prog:
                    for key in ("items", "items2"):
                        if key in c:
                            c[key] = [x for x in c[key] if isinstance(x, int)]
                    if c["kind"] == "callback_raises":
                        c["items"] = c["items"] or [0]
                        c["bad"] = c["items"][0] if c["bad"] not in c["items"] else c["bad"]
            runs.append((prog, None, rng.getrandbits(30), rng.choice([0, 0, 4, 8])))
    nruns = 0
    escalated = [False]

    def more_runs():
        """the normal pass, then -- when an obligation or the correspondence broke and no failing input was seen --
        a search aimed at the racy windows: short programs, concurrent receivers / late callbacks, many schedules"""
        yield from runs
        if replay or not ck.broken or ck.failures:
            return
        escalated[0] = True
        ck.count("escalated_search")
        for j in range(900 if tier == "quick" else 6000):
            if ck.failures:
                return
            prog = []
            for i in range(rng.randint(1, 2)):
                c = {"kind": rng.choice([k for k in kinds_weight if k in ("produce", "produce_raise", "callback_raises")] or ["produce"]), "tag": "t%d" % i}
                if c["kind"] == "callback_raises":
                    c = gen_conversation(rng, ["callback_raises"], "t%d" % i)
                else:
                    c["items"] = gen_items(rng, rng.choice([0, 1, 2, 4]))
                    c["consume"] = rng.choice(["two_receivers", "two_receivers", "callback_mid", "callback_late", "receive", "waitclose_then_receive", "poll", "poll"])
                prog.append(c)
            yield (prog, None, rng.getrandbits(30), rng.choice([0, 4, 8, 16]))
        # still nothing: one targeted preemption at every line of the modelled functions whose source changed
        from evh.common import changed_lines

        lines = changed_lines(ck.build_info)
        ck.cov["targeted_lines"] = len(lines)
        progs = [
            [{"kind": "produce", "tag": "t0", "items": [0, 1, 2], "consume": "callback_mid"}],
            [{"kind": "produce", "tag": "t0", "items": [0, 1], "consume": "two_receivers"}],
            [{"kind": "produce", "tag": "t0", "items": [0], "consume": "poll"}],
            [{"kind": "subchannel", "tag": "t0", "items": [0], "items2": [1]}, {"kind": "subchannel", "tag": "t1", "items": [2], "items2": [3]}],
            [{"kind": "produce", "tag": "t0", "items": [0], "consume": "callback_late"}, {"kind": "consume", "tag": "t1", "items": [1, 2]}],
        ]
        for where in lines:
            for prog in progs:
                if ck.failures:
                    return
                for nth in (1, 2):
                    yield (prog, ("demote", where, nth), rng.getrandbits(30), 10 ** 6)

    for prog, schedule, sd, lb in more_runs():
        r = random.Random(sd)
        if isinstance(schedule, tuple) and schedule and schedule[0] == "demote":
            chooser = S.DemoteAtLine(schedule[1], schedule[2], r)
            ck.count("targeted_runs")
        else:
            chooser = S.ReplayChooser(schedule) if schedule is not None else (S.RandomChooser(r, line_p=0.2) if sd % 3 else S.PCTChooser(r, r.choice([2, 3, 5]), 400))
        # every third program over the real SocketIO on a scripted socket (reads arrive in oracle-chosen pieces), the others over Popen2IO
        iok = ("socket" if sd % 3 == 0 else "popen") if not replay else replay["example"].get("io_kind", "popen")
        out = run_program(prog, chooser, sd, line_budget=lb, io_kind=iok)
        nruns += 1
        exb = {"prog": prog, "schedule": out["schedule"], "seed": sd, "line_budget": lb, "io_kind": iok, "result": out["result"]}
        ck.count("io_" + iok)
        ck.case((repr(prog), tuple(out["schedule"][:80])), nontrivial=len(out["schedule"]) > 3)
        for c in prog:
            ck.count("conv_" + c["kind"])
        if nruns % 97 == 1:
            ck.sample({**exb, "obs": compact({str(k): v for k, v in out["obs"].items()})})
        if out["result"] != "stop":
            ck.broke("correspondence", "pair-run-" + str(out["result"]), {**exb, "thread_errors": out["thread_errors"]})
            continue
        sub = _Sub(ck, prefix_filter)
        for i, c in enumerate(prog):
            o = out["obs"].get(i)
            ex = {**exb, "index": i, "obs": compact({str(k): v for k, v in out["obs"].items()}), "worker_notes": out["worker_notes"][:20]}
            if o is None or "id" not in o:
                sub.fail("conversation-did-not-start", ex)
                continue
            check_conversation(sub, "", c, o, out, ex)
        ids = [out["obs"][i]["id"] for i in range(len(prog)) if isinstance(out["obs"].get(i), dict) and "id" in out["obs"][i]]
        if len(set(ids)) != len(ids):
            # two independently started conversations got one channel id (and with it one Channel object)
            sub.fail("channel-id-handed-out-twice:conversations", {**exb, "ids": ids})
        for i, c in enumerate(prog):
            if c["kind"] == "status" and any(r[0] != "ok" for r in out["obs"].get(i, {}).get("status", [])):
                sub.fail("subchannel-status-poll-failed", {**exb, "status": out["obs"][i]["status"]})
        fin = out["final"]
        ex = {**exb, "final": fin}
        if not fin.get("hasreceiver"):
            sub.fail("gateway-lost-its-receiver", ex)
        if out["thread_errors"]:
            sub.fail("thread-died:" + out["thread_errors"][0][:50], ex)
        if fin.get("channels_left") or fin.get("callbacks_left") or fin.get("worker_callbacks_left") or [c for c in fin.get("worker_channels_left", [])]:
            keep = any(c["kind"] == "callback_raises" and c.get("keep") for c in prog)
            if not keep:
                sub.fail("channel-tables-not-back-to-baseline", ex)
        if extra:
            extra(ck, sub, prog, out, exb)
    ck.cov["traces_validated_against_impl"] = nruns
    ck.cov["programs"] = nruns
    ck.cov["escalated_search"] = escalated[0]
    return ck, ok


class _Sub:
    """routes a monitor failure: signatures of this property fail the check, others are only counted
    (they are reported by the check of the property they belong to)"""

    def __init__(self, ck, accept):
        self.ck, self.accept = ck, accept

    def fail(self, sig, ex, detail=""):
        if self.accept(sig):
            self.ck.fail(sig, ex, detail)
        else:
            self.ck.count("foreign_monitor:" + sig.split(":")[0])
