"""Correspondence of the Chan model's transition function with the real ChannelFactory / Channel code:
random operation sequences (frames arriving, new, drop, receive, setcallback) run one operation at a time
on a REAL BaseGateway without threads (frames are injected through Message.received under the receive
lock) and on the extracted model; the state digests are compared."""
from __future__ import annotations

import gc
import random

from evh.common import Model

IDS = [1, 2, 3, 4]


class _IO:
    def __init__(self):
        from execnet.gateway_base import get_execmodel

        self.execmodel = get_execmodel("thread")
        self.written = []

    def write(self, data):
        self.written.append(bytes(data))

    def read(self, n):
        raise EOFError("stub")

    def close_read(self):
        pass

    def close_write(self):
        pass


def run_ops_impl(rng, nops, script=None, link=False):
    """performs nops operations chosen by rng (or the given script); returns (ops performed, digest);
    link=True: also send() / close(error) / and what every operation wrote to the connection"""
    import contextlib
    import io

    with contextlib.redirect_stderr(io.StringIO()):  # RemoteError.warn() of unclaimed errors
        return _run_ops_impl(rng, nops, script, link)


def _run_ops_impl(rng, nops, script=None, link=False):
    from execnet import gateway_base as gb

    gw = gb.BaseGateway(_IO(), "stub", _startcount=1)
    fac = gw._channelfactory
    held, snap = {}, {}
    got = {i: [] for i in IDS}
    ends = {i: 0 for i in IDS}
    errs_out = {i: 0 for i in IDS}
    eofs = {i: 0 for i in IDS}
    ops = []
    END = ("END",)
    val = [0]
    finished = [False]
    refused = {i: 0 for i in IDS}

    def frame(code, id, payload=b""):
        with gw._receivelock:
            gb.Message(code, id, payload).received(gw)

    def mkcb(id):
        def cb(x):
            if x is END:
                ends[id] += 1
            else:
                got[id].append(x)

        return cb

    def do(op):
        k, id = op[0], (op[1] if len(op) > 1 else None)
        if k == 0:
            frame(gb.Message.CHANNEL_DATA, id, gb.dumps_internal(op[2]))
        elif k == 1:
            e = op[2]
            if e == 0:
                frame(gb.Message.CHANNEL_CLOSE, id)
            elif e == 1:
                frame(gb.Message.CHANNEL_CLOSE_ERROR, id, gb.dumps_internal("boom"))
            else:
                frame(gb.Message.CHANNEL_LAST_MESSAGE, id)
        elif k == 2:
            try:
                held[id] = fac.new(id)
                snap.pop(id, None)
            except OSError:
                pass  # refused after the connection ended
        elif k == 3:
            ch = held.pop(id)
            snap[id] = (ch._closed, ch._receiveclosed.is_set(), len(ch._remoteerrors))
            ch._remoteerrors[:] = []  # keep __del__ from warning on stderr; the count is in the snapshot
            del ch
            gc.collect()
        elif k == 4:
            try:
                got[id].append(held[id].receive(timeout=0))
            except EOFError:
                eofs[id] += 1
            except gb.RemoteError:
                errs_out[id] += 1
            except (held[id].TimeoutError, OSError):
                pass
        elif k == 6:
            fac._finished_receiving()
            finished[0] = True
        elif k == 7:
            held[id].close()
        elif k == 9:
            held[id].close("boom")
        elif k == 8:
            try:
                held[id].send(op[2])
            except OSError:
                refused[id] += 1
        elif k == 5:
            try:
                if op[2]:
                    held[id].setcallback(mkcb(id), endmarker=END)
                else:
                    held[id].setcallback(mkcb(id))
            except OSError:
                pass

    def legal(op):
        k = op[0]
        if k == 6:
            return not finished[0]
        id = op[1]
        if k in (0, 1) and finished[0]:
            return False  # no receiver thread any more
        if k == 2 and finished[0] and id in held:
            return False
        if k == 2:
            # the model's LNew covers a fresh object under an id without a stale callback registration
            return not (id in fac._callbacks and id not in fac._channels)
        if k in (3, 4, 5, 7, 8, 9):
            return id in held
        return True

    n = 0
    src = iter(script) if script is not None else None
    while n < nops:
        if src is not None:
            try:
                op = next(src)
            except StopIteration:
                break
        else:
            id = rng.choice(IDS[:3] if rng.random() < 0.8 else IDS)
            if link:
                k = rng.choices([0, 1, 2, 3, 4, 5, 6, 7, 8, 9], [12, 8, 14, 8, 10, 8, 2, 7, 26, 3])[0]
            else:
                k = rng.choices([0, 1, 2, 3, 4, 5, 6, 7], [30, 8, 14, 6, 30, 8, 2, 6])[0]
            if k in (0, 8):
                val[0] += 1
                op = [k, id, val[0]]
            elif k == 1:
                op = [1, id, rng.choice([0, 0, 1, 2])]
            elif k == 5:
                op = [5, id, rng.choice([0, 1, 1])]
            elif k == 6:
                op = [6]
            else:
                op = [k, id]
        if not legal(op):
            if src is not None:
                continue
            n += 1
            continue
        if link and op[0] == 2 and op[1] in held:
            # the old object goes away first (its __del__ may notify the peer)
            do([3, op[1]])
            ops.append([3, op[1]])
            if not legal(op):
                n += 1
                continue
        do(op)
        ops.append(op)
        n += 1
    dig = []
    for id in IDS:
        alive = id in fac._channels
        ch = held.get(id)
        d = [int(alive)]
        if alive:
            o = fac._channels[id]
            if o._items is None:
                d += [-1]
            else:
                items = list(o._items.queue)
                d += [len(items)] + [(-2 if x is gb.ENDMARKER else x) for x in items]
        else:
            d += [-1]
        if ch is not None:
            st = (ch._closed, ch._receiveclosed.is_set(), len(ch._remoteerrors))
        else:
            st = snap.get(id, (False, False, 0))
        cbreg = fac._callbacks.get(id)
        d += [int(st[0]), int(st[1]), st[2], 0 if cbreg is None else (1 if cbreg[1] is gb.NO_ENDMARKER_WANTED else 2)]
        d += [len(got[id])] + got[id] + [ends[id], errs_out[id], eofs[id]]
        dig.append(d)
    if link:
        import io as _io

        out = []
        for w in gw._io.written:
            m = gb.Message.from_io(_io.BytesIO(w))
            if m.msgcode == gb.Message.CHANNEL_DATA:
                out += [0, m.channelid, gb.loads_internal(m.data)]
            elif m.msgcode == gb.Message.CHANNEL_CLOSE:
                out += [1, m.channelid, 0]
            elif m.msgcode == gb.Message.CHANNEL_CLOSE_ERROR:
                out += [1, m.channelid, 1]
            elif m.msgcode == gb.Message.CHANNEL_LAST_MESSAGE:
                out += [1, m.channelid, 2]
            else:
                out += [9, m.channelid, m.msgcode]
        dig = [dig, [refused[i] for i in IDS], [len(gw._io.written)] + out]
        del gw._io.written[:]  # what the remaining objects say when they go away is not part of the comparison
    for ch in list(held.values()):
        ch._remoteerrors[:] = []
    held.clear()
    gc.collect()
    return ops, dig


def split_model(out):
    """model digest -> per id lists, without the trailing lossless flag"""
    res, i = [], 0
    for _ in IDS:
        st = i
        i += 1                       # alive
        if out[i] == -1:
            i += 1
        else:
            i += 1 + out[i]
        i += 4                       # closed rclosed errs cb
        i += 1 + out[i]              # got
        i += 3                       # ends errs_out eofs
        res.append(out[st:i])
        i += 1                       # lossless
    return res


def correspondence(ck, ok, prop, tier, replay=None):
    if not ok:
        return
    rng = random.Random(ck.seed * 7919 + 13)
    n = 400 if tier == "quick" else 6000
    cases = []
    if replay and replay.get("example", {}).get("ops") is not None:
        ops, dig = run_ops_impl(None, 10**6, script=replay["example"]["ops"])
        cases.append((ops, dig))
    elif not replay:
        for _ in range(n):
            ops, dig = run_ops_impl(random.Random(rng.getrandbits(40)), rng.choice([4, 8, 16, 30, 60]))
            cases.append((ops, dig))
    if not cases:
        return
    try:
        mouts = Model().run([[2] + [x for op in ops for x in op] for ops, _ in cases])
    except Exception as e:  # noqa
        ck.broke("correspondence", "modelrun-chan", repr(e))
        return
    bad = 0
    kinds = {}
    ck.cov["chan_step_cases_with_loss"] = sum(1 for ops, _ in cases if [6] in ops)
    for (ops, dig), mo in zip(cases, mouts):
        for op in ops:
            kinds[op[0]] = kinds.get(op[0], 0) + 1
        try:
            mdig = split_model(mo)
        except Exception:  # noqa
            mdig = None
        if mdig != dig:
            bad += 1
            if bad <= 3:
                ck.broke("correspondence", "chan-step-model-vs-impl", {"ops": _shrink(ops), "impl": dig, "model": mdig})
    ck.cov["chan_step_cases"] = len(cases)
    ck.cov["chan_step_ops"] = {"data,end,new,drop,receive,setcallback"[0:0] + str(k): v for k, v in sorted(kinds.items())}
    ck.cov["chan_step_mismatches"] = bad


def split_link(out):
    """model output of selector 3 -> [per-id digests, refused counts, wire]"""
    res, i = [], 0
    for _ in IDS:
        st = i
        i += 1
        if out[i] == -1:
            i += 1
        else:
            i += 1 + out[i]
        i += 4
        i += 1 + out[i]
        i += 3
        res.append(out[st:i])
        i += 1
    return [res, out[i:i + 4], out[i + 4:]]


def link_correspondence(ck, ok, tier, replay=None):
    """the sending side: send() / close() / close(error) / __del__ on real Channel objects of a thread-less gateway whose
    connection records every write, mixed with arriving frames, receive, setcallback and the epilogue -- against the
    extracted Link model run sequentially: same object states, same refused sends, same frames on the wire in the same order"""
    if not ok:
        return
    rng = random.Random(ck.seed * 104729 + 5)
    n = 400 if tier == "quick" else 6000
    cases = []
    if replay and replay.get("example", {}).get("link_ops") is not None:
        cases.append(run_ops_impl(None, 10**6, script=replay["example"]["link_ops"], link=True))
    elif not replay:
        for _ in range(n):
            cases.append(run_ops_impl(random.Random(rng.getrandbits(40)), rng.choice([4, 8, 16, 30, 60]), link=True))
    if not cases:
        return
    try:
        mouts = Model().run([[3] + [x for op in ops for x in op] for ops, _ in cases])
    except Exception as e:  # noqa
        ck.broke("correspondence", "modelrun-link", repr(e))
        return
    bad, kinds, frames, refused = 0, {}, 0, 0
    for (ops, dig), mo in zip(cases, mouts):
        for op in ops:
            kinds[op[0]] = kinds.get(op[0], 0) + 1
        frames += dig[2][0]
        refused += sum(dig[1])
        try:
            mdig = split_link(mo)
        except Exception:  # noqa
            mdig = None
        if mdig != dig:
            bad += 1
            if bad <= 3:
                ck.broke("correspondence", "link-model-vs-impl", {"link_ops": _shrink(ops, True), "impl": dig, "model": mdig})
    ck.cov["link_cases"] = len(cases)
    ck.cov["link_ops"] = {str(k): v for k, v in sorted(kinds.items())}
    ck.cov["link_frames_written"] = frames
    ck.cov["link_sends_refused"] = refused
    ck.cov["link_mismatches"] = bad


def _shrink(ops, link=False):
    """greedy removal of operations while model and implementation still differ"""
    def differs(o):
        try:
            o2, dig = run_ops_impl(None, 10**6, script=o, link=link)
            if link:
                return split_link(Model().run([[3] + [x for op in o2 for x in op]])[0]) != dig
            mo = Model().run([[2] + [x for op in o2 for x in op]])[0]
            return split_model(mo) != dig
        except Exception:  # noqa
            return True

    cur = list(ops)
    i = 0
    budget = 150
    while i < len(cur) and budget > 0:
        cand = cur[:i] + cur[i + 1:]
        budget -= 1
        if cand and differs(cand):
            cur = cand
        else:
            i += 1
    return cur


def reconf_correspondence(ck, ok, tier, replay=None):
    """per-channel RECONFIGURE on a real ChannelFactory (stub gateway, frames injected as the receiver thread would) vs the
    extracted Reconf model (selector 22): generated sequences of RECONFIGURE / the channel arriving (new(id), object kept) /
    the object dropped / setcallback / gateway-wide RECONFIGURE / a data item carrying a Python-2 str and a Python-3 str
    (their types on arrival tell the coercion that was applied); observed per operation: the message this side sends
    (CHANNEL_CLOSE / CHANNEL_LAST_MESSAGE) and where the item went (dropped / queue / callback) with which setting"""
    if not ok:
        return
    if replay and not (replay.get("signature") or "").startswith("reconfigure-"):
        return
    import gc
    import struct

    from evh.fakeio import stub_gateway
    from execnet import gateway_base as gb

    rng = random.Random(ck.seed * 131 + 7)
    payload = b"M\x00\x00\x00\x01aN\x00\x00\x00\x01b@\x00\x00\x00\x02Q"   # (py2str 'a', py3str 'b')

    def decode_used(x):
        a, b = x
        return [1 if isinstance(a, str) else 0, 1 if isinstance(b, bytes) else 0]

    def run_real(g, ops):
        gw, io = stub_gateway(1)
        gw._strconfig = (bool(g[0]), bool(g[1]))
        f = gw._channelfactory
        cid = 8
        box, holder, out = [], [], []
        for op in ops:
            n0 = len(io.written)
            used = [0, 0, 0]
            if op[0] == 0:
                gb.Message(gb.Message.RECONFIGURE, cid, gb.dumps_internal((bool(op[1]), bool(op[2])))).received(gw)
            elif op[0] == 1:
                if not holder:
                    holder.append(f.new(cid))
            elif op[0] == 2:
                del holder[:]
            elif op[0] == 3:
                if holder and holder[0]._items is not None:
                    holder[0].setcallback(box.append)
            elif op[0] == 4:
                gb.Message(gb.Message.RECONFIGURE, 0, gb.dumps_internal((bool(op[1]), bool(op[2])))).received(gw)
            elif op[0] == 5:
                nb = len(box)
                gb.Message(gb.Message.CHANNEL_DATA, cid, payload).received(gw)
                if len(box) > nb:
                    used = [3] + decode_used(box[-1])
                elif holder and holder[0]._items is not None and holder[0]._items.qsize():
                    used = [2] + decode_used(holder[0]._items.get())
                else:
                    used = [1, 0, 0]
            gc.collect()
            em = 0
            for fr in io.written[n0:]:
                if len(fr) >= 9:
                    code = struct.unpack("!bii", fr[:9])[0]
                    em = 1 if code == gb.Message.CHANNEL_CLOSE else (2 if code == gb.Message.CHANNEL_LAST_MESSAGE else 9)
            out += [em] + used
        for h in holder:
            h._closed = True
        return out

    cases = []
    if replay:
        cases.append((replay["example"]["g"], replay["example"]["ops"]))
    else:
        for _ in range(400 if tier == "quick" else 8000):
            g = [rng.randint(0, 1), rng.randint(0, 1)]
            ops = []
            for _ in range(rng.choice([2, 4, 8, 14])):
                k = rng.choice([0, 0, 1, 1, 2, 3, 4, 5, 5])
                ops.append([k, rng.randint(0, 1), rng.randint(0, 1)] if k in (0, 4) else [k])
            cases.append((g, ops))
        # the history of the repaired defect and the re-adoption history, always
        cases.append(([1, 0], [[0, 0, 1], [1], [5]]))
        cases.append(([1, 0], [[1], [3], [2], [0, 0, 1], [4, 1, 1], [1], [5]]))
    try:
        mouts = Model().run([[22] + g + [x for op in ops for x in op] for g, ops in cases])
    except Exception as e:  # noqa
        ck.broke("correspondence", "modelrun-reconf", repr(e))
        return
    for (g, ops), mo in zip(cases, mouts):
        try:
            real = run_real(g, ops)
        except Exception as e:  # noqa
            ck.fail("reconfigure-sequence-raises:" + type(e).__name__, {"g": g, "ops": ops, "error": repr(e)[:200]})
            continue
        ck.case(("reconf", tuple(g), repr(ops)), nontrivial=len(ops) > 2)
        ex = {"g": g, "ops": ops, "impl": real, "model": list(mo)}
        # the property itself, on the real objects: a RECONFIGURE never makes this side send CLOSE / LAST_MESSAGE
        for i, op in enumerate(ops):
            if op[0] != 2 and real[4 * i] != 0:
                ck.fail("reconfigure-closes-the-channel" if op[0] == 0 else "reconfigure-history-sends-close-without-a-drop", ex)
                break
        else:
            # ... and an item that is delivered is loaded with the setting of the last RECONFIGURE since this side knows the id
            # (before that: the gateway's setting at the moment the channel object appeared) -- tracked here without the model
            cur, gwc, held, cbreg, okc = None, list(g), False, False, True
            for i, op in enumerate(ops):
                if op[0] == 0:
                    cur = [op[1], op[2]]
                elif op[0] == 1:
                    if not held:
                        held = True
                        if cur is None:
                            cur = list(gwc)
                elif op[0] == 2:
                    if held:
                        held = False
                        if not cbreg:
                            cur = None
                elif op[0] == 3:
                    if held and not cbreg:
                        cbreg = True
                elif op[0] == 4:
                    gwc = [op[1], op[2]]
                elif op[0] == 5 and real[4 * i + 1] in (2, 3):
                    want = [1 if cur[0] else 0, 1 if cur[1] else 0]
                    if real[4 * i + 2:4 * i + 4] != want:
                        okc = False
                        ck.fail("reconfigure-setting-not-applied-to-a-delivered-item", {**ex, "op_index": i, "expected_setting": cur})
                        break
            if okc and list(mo) != real:
                ck.broke("correspondence", "reconf-model-vs-impl", ex)
    ck.count("reconf_sequences", len(cases))
    if not replay:
        # settings for ids that never arrive (the peer configured a channel it had closed, or the two crossed on the wire) do not
        # pile up: per-gateway state stays bounded however many such conversations there were
        gw, io = stub_gateway(1)
        for i in range(400):
            gb.Message(gb.Message.RECONFIGURE, 1000 + 2 * i, gb.dumps_internal((True, False))).received(gw)
        tables = {k: len(v) for k, v in vars(gw._channelfactory).items() if isinstance(v, (dict, list, set)) or type(v).__name__ == "WeakValueDictionary"}
        ck.case(("reconf-forgotten-ids",), nontrivial=True)
        if any(n > 100 for n in tables.values()):
            ck.fail("reconfigure-of-forgotten-ids-grows-the-tables", {"tables": tables, "reconfigures": 400})


def ids_correspondence(ck, ok, tier, replay=None):
    """id allocation: random sequences of fresh allocations on either side and adoptions of the peer's ids on two
    real ChannelFactory objects (initiator start count from Gateway.__init__, worker from serve()) vs the Ids model"""
    if not ok or replay:
        return
    import inspect
    import re

    from execnet import gateway_base as gb
    import execnet.gateway as g

    m = re.search(r"_startcount=(\d+)", inspect.getsource(g.Gateway.__init__))
    start_i = int(m.group(1))
    m = re.search(r"WorkerGateway\(.*_startcount=(\d+)\)", inspect.getsource(gb.serve))
    start_w = int(m.group(1))
    rng = random.Random(ck.seed * 31 + 5)
    cases = []
    for _ in range(300 if tier == "quick" else 4000):
        A = gb.BaseGateway(_IO(), "a", _startcount=start_i)
        B = gb.BaseGateway(_IO(), "b", _startcount=start_w)
        keep, ops, outs = [], [], ([], [])
        for _ in range(rng.choice([3, 10, 40])):
            sd = rng.randint(0, 1)
            me, other = (A, B) if sd == 0 else (B, A)
            if rng.random() < 0.6 or not outs[1 - sd]:
                ch = me._channelfactory.new()
                outs[sd].append(ch.id)
                ops += [0, sd]
            else:
                id = rng.choice(outs[1 - sd])
                ch = me._channelfactory.new(id)
                ops += [1, sd, id]
            if rng.random() < 0.7:
                keep.append(ch)
        cases.append((ops, outs))
        for ch in keep:
            ch._closed = True
        del keep
    try:
        mouts = Model().run([[18] + ops for ops, _ in cases])
    except Exception as e:  # noqa
        ck.broke("correspondence", "modelrun-ids", repr(e))
        return
    bad = 0
    for (ops, outs), mo in zip(cases, mouts):
        na = mo[0]
        ma, mb = mo[1:1 + na], mo[2 + na:]
        if [ma, mb] != [outs[0], outs[1]]:
            bad += 1
            if bad <= 2:
                ck.broke("correspondence", "ids-model-vs-impl", {"ops": ops, "impl": outs, "model": [ma, mb]})
        allids = outs[0] + outs[1]
        if len(set(allids)) != len(allids):
            ck.fail("channel-id-handed-out-twice", {"ops": ops, "ids": outs})
    ck.cov["ids_cases"] = len(cases)
    ck.cov["ids_mismatches"] = bad


def multichannel_queue(ck, tier, replay=None):
    """MultiChannel.make_receive_queue (multi.py) on real channels of a thread-less gateway: random frame sequences for 1-3
    member channels, every endmarker value incl. None / False / 0 and 'none requested'; the queue must hold, per member, its
    items in order as (channel, item) and then -- iff an endmarker was requested -- (channel, endmarker) exactly once as the
    last entry of that member, whether the channel ends by CLOSE, CLOSE_ERROR, LAST_MESSAGE or the end of receiving"""
    from execnet import gateway_base as gb
    from execnet.multi import MultiChannel

    if replay and not (replay.get("signature") or "").startswith("multichannel"):
        return
    rng = random.Random(ck.seed * 31337 + 2)
    SENT = object()
    n = 300 if tier == "quick" else 6000
    scripts = []
    if replay and replay.get("example", {}).get("mc_script") is not None:
        scripts.append(replay["example"]["mc_script"])
    else:
        for _ in range(n):
            k = rng.randint(1, 3)
            ops = []
            for _i in range(rng.randint(0, 10)):
                ops.append([rng.randrange(k), rng.choice(["data", "data", "data", "close", "error", "last"])])
            scripts.append({"members": k, "endmarker": rng.choice(["none-requested", "None", "False", "0", "999", "tuple"]), "late": rng.random() < 0.4, "ops": ops, "finish": rng.random() < 0.7})
    EM = {"None": None, "False": False, "0": 0, "999": 999, "tuple": ("END",)}
    for sc in scripts:
        gw = gb.BaseGateway(_IO(), "stub", _startcount=1)
        fac = gw._channelfactory
        chans = [fac.new() for _ in range(sc["members"])]
        mc = MultiChannel(chans)
        want = {i: [] for i in range(sc["members"])}
        ended = set()
        val = [0]

        def inject(code, id, payload=b""):
            with gw._receivelock:
                gb.Message(code, id, payload).received(gw)

        def setup():
            if sc["endmarker"] == "none-requested":
                return mc.make_receive_queue()
            return mc.make_receive_queue(endmarker=EM[sc["endmarker"]])

        import contextlib
        import io

        with contextlib.redirect_stderr(io.StringIO()):
            q = None if sc["late"] else setup()
            for i, kind in sc["ops"]:
                ch = chans[i]
                if kind == "data":
                    val[0] += 1
                    inject(gb.Message.CHANNEL_DATA, ch.id, gb.dumps_internal(val[0]))
                    if i not in ended:
                        want[i].append(val[0])
                elif i not in ended:
                    inject({"close": gb.Message.CHANNEL_CLOSE, "error": gb.Message.CHANNEL_CLOSE_ERROR, "last": gb.Message.CHANNEL_LAST_MESSAGE}[kind], ch.id, gb.dumps_internal("boom") if kind == "error" else b"")
                    ended.add(i)
            if q is None:
                q = setup()
            if sc["finish"]:
                fac._finished_receiving()
                ended = set(range(sc["members"]))
            got = {i: [] for i in range(sc["members"])}
            while not q.empty():
                c, obj = q.get()
                got[chans.index(c)].append(obj)
            for ch in chans:
                ch._remoteerrors[:] = []
        ck.case(("multichannel", sc["members"], sc["endmarker"], sc["late"], len(sc["ops"])), nontrivial=bool(sc["ops"]))
        ck.count("multichannel_queue_runs")
        for i in range(sc["members"]):
            exp = list(want[i])
            if sc["endmarker"] != "none-requested" and i in ended:
                exp.append(EM[sc["endmarker"]])
            g = got[i]
            same = len(g) == len(exp) and all((a is b) or (type(a) is type(b) and a == b) for a, b in zip(g, exp))
            if not same:
                ck.fail("multichannel-queue-differs:endmarker=%s" % sc["endmarker"], {"mc_script": sc, "member": i, "expected": repr(exp), "got": repr(g)})
                break
