"""Channel programs on REAL gateways (real processes, real pipes/sockets) and their transcripts; shared by
C15 (bootstrap paths) and C16 (transports).  A transcript is a JSON-able list of what the initiating side
observed; two gateways are observationally equivalent on a program when the transcripts are equal."""
from __future__ import annotations

import hashlib
import os
import re
import subprocess
import sys
import time

T = 30.0  # every wait is bounded


def with_timeout(f, secs=60.0):
    """run f() in a daemon thread; ("ok", value) | ("exc", exception) | ("timeout", None) -- a hung gateway must not hang the check"""
    import threading

    box = {}

    def run():
        try:
            box["v"] = f()
        except BaseException as e:  # noqa
            box["e"] = e

    th = threading.Thread(target=run, daemon=True)
    th.start()
    th.join(secs)
    if th.is_alive():
        return "timeout", None
    if "e" in box:
        return "exc", box["e"]
    return "ok", box.get("v")


def payload(i, size):
    """deterministic bytes of the given size containing every byte value"""
    base = bytes((j * 7 + i) % 256 for j in range(256))
    return (base * (size // 256 + 1))[:size]


def digest(x):
    if isinstance(x, (bytes, bytearray)):
        return ("bytes", len(x), hashlib.md5(bytes(x)).hexdigest()[:12])
    if isinstance(x, str) and len(x) > 64:
        return ("str", len(x), hashlib.md5(x.encode("utf-8", "surrogatepass")).hexdigest()[:12])
    if isinstance(x, (list, tuple)):
        return (type(x).__name__, [digest(y) for y in x])
    if isinstance(x, dict):
        return ("dict", sorted((repr(digest(k)), digest(v)) for k, v in x.items()))
    if isinstance(x, (set, frozenset)):
        return (type(x).__name__, sorted(repr(digest(y)) for y in x))
    if isinstance(x, float):
        return ("float", x.hex())
    return (type(x).__name__, repr(x))


def norm_error(e):
    """the part of a RemoteError text that does not depend on the transport: exception line + line numbers of the
    remote source"""
    txt = str(e)
    lines = [l for l in txt.strip().splitlines() if l.strip()]
    last = lines[-1] if lines else ""
    locs = re.findall(r'File "(<[^"]*>|[^"]*)", line (\d+)', txt)
    locs = [(("<remote exec>" if f.startswith("<") and "remote exec" in f else os.path.basename(f)), int(n)) for f, n in locs if "gateway_base" not in f and "socket server" not in f and f not in ("<string>",)]
    return ("RemoteError", last, locs)


def gen_values(rng, n):
    out = []
    for i in range(n):
        k = rng.randrange(12)
        if k == 0:
            out.append(rng.choice([None, True, False]))
        elif k == 1:
            out.append(rng.choice([0, -1, 2**31 - 1, -2**31, 2**31, -2**31 - 1, 10**30, -10**30, rng.getrandbits(70)]))
        elif k == 2:
            out.append(rng.choice([0.0, -0.0, 1.5, 1e300, float("inf"), 3.141592653589793]))
        elif k == 3:
            out.append(payload(i, rng.choice([0, 1, 255, 256, 4097, 70000])))
        elif k == 4:
            out.append("".join(rng.choice(["a", "é", "€", "\U0001f600", "\n", "\x00"]) for _ in range(rng.choice([0, 1, 5, 300]))))
        elif k == 5:
            out.append([i, [i, (i, None)], {"k": i}])
        elif k == 6:
            out.append((i, "x", b"y"))
        elif k == 7:
            out.append({i: "v", "s": [1, 2], (1, 2): None})
        elif k == 8:
            out.append({i, "s", (1, 2)})
        elif k == 9:
            out.append(frozenset([i, b"b"]))
        elif k == 10:
            out.append(complex(i, -0.5))
        else:
            out.append(i)
    return out


W_ECHO = """
while 1:
    x = channel.receive()
    if x == 'STOP-ECHO':
        break
    channel.send((type(x).__name__, x))
"""
W_PRODUCE = """
import hashlib
def payload(i, size):
    base = bytes((j * 7 + i) %% 256 for j in range(256))
    return (base * (size // 256 + 1))[:size]
for i, size in enumerate(%r):
    channel.send(payload(i, size))
"""
W_RAISE = """
for i in range(%d):
    channel.send(i)

def inner():
    raise ValueError('boom %d')
inner()
"""
W_SUB = """
sub = channel.gateway.newchannel()
channel.send(sub)
for x in %r:
    sub.send(x)
sub.close()
back = channel.receive()
for x in back:
    channel.send(('via-back', x))
channel.send('sub-done')
"""
W_CALLBACK = """
got = []
done = []
END = 999999
def cb(x):
    if x == END:
        done.append(1)
    else:
        got.append(x)
sub = channel.gateway.newchannel()
sub.setcallback(cb, endmarker=END)
channel.send(sub)
for _ in range(3000):
    if done:
        break
    channel.gateway.execmodel.sleep(0.01)
channel.send(got)
"""
W_PRINT = """
import sys, os
sys.stdout.write('x' * %d)
sys.stdout.flush()
print('hello on stdout')
sys.stderr.write('')
try:
    os.write(1, b'raw fd one ' * 100)
except OSError:
    pass
channel.send('after-print')
"""
W_NAME = """
channel.send((__name__, 'channel' in globals(), type(channel).__name__))
"""
W_CLOSE_INSIDE = """
try:
    channel.close()
    channel.send('close-accepted')
except Exception as e:
    channel.send(('close-refused', type(e).__name__))
"""
W_NOEXECNET = """
import sys
loaded = sorted(m for m in sys.modules if m == 'execnet' or m.startswith('execnet.'))
channel.send(('loaded', loaded))
try:
    import execnet
    channel.send(('importable', True))
except ImportError:
    channel.send(('importable', False))
"""


def kwfunc(channel, a, b=2, **kw):
    channel.send((a, b, sorted(kw.items())))


def run_programs(gw, rng, big=70000, light=False):
    """returns the transcript (list of [program name, observations])"""
    from execnet.gateway_base import RemoteError

    tr = []

    def rec(name, f):
        t0 = time.time()
        try:
            tr.append([name, f()])
        except RemoteError as e:
            tr.append([name, ["raised", norm_error(e)]])
        except Exception as e:  # noqa
            tr.append([name, ["raised", type(e).__name__, str(e)[:80]]])
        if time.time() - t0 > T:
            tr[-1].append("SLOW")

    def echo():
        vals = gen_values(rng, 6 if light else 14)
        ch = gw.remote_exec(W_ECHO)
        out = []
        for v in vals:
            ch.send(v)
            ty, back = ch.receive(T)
            out.append([ty, digest(back), digest(back) == digest(v)])
        ch.send("STOP-ECHO")
        ch.waitclose(T)
        return out

    def produce():
        sizes = [0, 1, 9, 4096, 65536, big, 3]
        ch = gw.remote_exec(W_PRODUCE % (sizes,))
        out = [digest(x) for x in ch]
        ch.waitclose(T)
        return [out, [digest(payload(i, s)) for i, s in enumerate(sizes)] == out]

    def raises():
        k = rng.randint(0, 3)
        ch = gw.remote_exec(W_RAISE % (k, k))
        out = []
        try:
            while 1:
                out.append(ch.receive(T))
        except RemoteError as e:
            out.append(norm_error(e))
        try:
            ch.receive(T)
        except EOFError:
            out.append("then-EOFError")
        return out

    def sub():
        items = gen_values(rng, 4)
        ch = gw.remote_exec(W_SUB % ([x for x in items if not isinstance(x, (set, frozenset, complex, float))],))
        s = ch.receive(T)
        out = [type(s).__name__, s.id % 2]
        out.append([digest(x) for x in s])
        back = gw.newchannel()
        ch.send(back)
        for x in (1, b"two", "three"):
            back.send(x)
        back.close()
        res = []
        while 1:
            x = ch.receive(T)
            if x == "sub-done":
                break
            res.append(digest(x))
        out.append(res)
        ch.waitclose(T)
        return out

    def callback():
        ch = gw.remote_exec(W_CALLBACK)
        s = ch.receive(T)
        for i in range(20):
            s.send(i)
        s.close()
        got = ch.receive(T)
        ch.waitclose(T)
        return got

    def local_callback():
        got = []
        ch = gw.remote_exec("for i in range(30):\n    channel.send(i * 3)\n")
        ch.setcallback(got.append, endmarker="END")
        ch.waitclose(T)
        deadline = time.time() + T
        while "END" not in got and time.time() < deadline:
            time.sleep(0.01)
        return got

    def prints():
        ch = gw.remote_exec(W_PRINT % rng.choice([10, 5000, 200000]))
        x = ch.receive(T)
        ch.waitclose(T)
        return x

    def name():
        ch = gw.remote_exec(W_NAME)
        x = ch.receive(T)
        ch.waitclose(T)
        return list(x)

    def close_inside():
        ch = gw.remote_exec(W_CLOSE_INSIDE)
        x = ch.receive(T)
        ch.waitclose(T)
        return digest(x)

    def kwargs():
        ch = gw.remote_exec(kwfunc, a=[1, (2, b"3")], b={"k": None}, extra="é", n=2**40)
        x = ch.receive(T)
        ch.waitclose(T)
        return digest(x)

    def kwargs_nonfunc():
        try:
            gw.remote_exec("channel.send(1)", a=1)
            return "accepted"
        except TypeError:
            return "TypeError"

    def status():
        # the count of a task that has just finished may lag behind its channel's close: wait until it settles
        deadline = time.time() + 5
        while 1:
            st = gw.remote_status()
            if (st.numexecuting == 0 and st.numchannels == 0) or time.time() > deadline:
                return [st.numchannels, st.numexecuting]
            time.sleep(0.02)

    def module():
        import props.xport_remote_module as m

        ch = gw.remote_exec(m)
        ch.send(20)
        x = ch.receive(T)
        ch.waitclose(T)
        return x

    def send_after_close():
        ch = gw.remote_exec("pass")
        ch.waitclose(T)
        try:
            ch.send(1)
            return "accepted"
        except OSError:
            return "OSError"

    def rinfo():
        # the remote half of Gateway._rinfo is source shipped by the initiator like any remote_exec
        r = gw._rinfo(update=True)
        return [sorted(r.__dict__), sorted((k, type(v).__name__) for k, v in r.__dict__.items())]

    progs = [("rinfo", rinfo), ("name", name), ("echo", echo), ("produce", produce), ("raises", raises), ("sub", sub), ("callback", callback), ("local_callback", local_callback),
             ("prints", prints), ("close_inside", close_inside), ("kwargs", kwargs), ("kwargs_nonfunc", kwargs_nonfunc), ("module", module), ("send_after_close", send_after_close), ("status", status)]
    for n, f in progs:
        rec(n, f)
    return tr


def execnet_importable_remotely(gw):
    return execnet_presence(gw)[0]


def execnet_presence(gw):
    """(importable, execnet modules already loaded in the worker)"""
    ch = gw.remote_exec(W_NOEXECNET)
    loaded = ch.receive(T)[1]
    x = ch.receive(T)
    ch.waitclose(T)
    return x[1], loaded


class StandaloneServer:
    """script/socketserver.py copied to a scratch directory and run by an interpreter that cannot import execnet"""

    def __init__(self, repo_src, scratch, python_args):
        import shutil

        self.dir = scratch
        os.makedirs(scratch, exist_ok=True)
        shutil.copy(os.path.join(repo_src, "execnet", "script", "socketserver.py"), os.path.join(scratch, "socketserver.py"))
        import socket

        s = socket.socket()
        s.bind(("127.0.0.1", 0))
        self.port = s.getsockname()[1]
        s.close()
        env = {k: v for k, v in os.environ.items() if not k.startswith("PYTHON")}
        self.p = subprocess.Popen(python_args + ["socketserver.py", "127.0.0.1:%d" % self.port], cwd=scratch, env=env, stdout=subprocess.PIPE, stderr=subprocess.STDOUT)
        # wait for the accept loop
        deadline = time.time() + 10
        self.banner = b""
        import select

        while time.time() < deadline:
            r, _, _ = select.select([self.p.stdout], [], [], 0.2)
            if r:
                chunk = os.read(self.p.stdout.fileno(), 4096)
                if not chunk:
                    break
                self.banner += chunk
                if b"Entering Accept loop" in self.banner:
                    break
            if self.p.poll() is not None:
                self.banner += self.p.stdout.read() or b""
                break

        # keep draining the server's stdout: code exec'd by the server prints there, a full pipe would block it
        import threading

        def drain():
            try:
                while os.read(self.p.stdout.fileno(), 65536):
                    pass
            except OSError:
                pass

        threading.Thread(target=drain, daemon=True).start()

    def ok(self):
        return self.p.poll() is None and b"Entering Accept loop" in self.banner

    def stop(self):
        import shutil

        try:
            self.p.kill()
            self.p.wait(5)
        except Exception:  # noqa
            pass
        shutil.rmtree(self.dir, ignore_errors=True)
