"""a module shipped by gw.remote_exec(module): runs with __name__ == '__channelexec__'"""
import os


def double(x):
    return x * 2


if __name__ == "__channelexec__":
    channel.send((double(channel.receive()), __name__, os.sep))  # noqa: F821
