(* driver for the extracted model: one case per input line (space-separated integers),
   one result line per case.  Z/positive stay the extracted inductive types. *)
open Model

let rec pos_of_int n =
  if n = 1 then XH else if n land 1 = 0 then XO (pos_of_int (n lsr 1)) else XI (pos_of_int (n lsr 1))
let z_of_int n = if n = 0 then Z0 else if n > 0 then Zpos (pos_of_int n) else Zneg (pos_of_int (-n))
let rec int_of_pos = function XH -> 1 | XO p -> 2 * int_of_pos p | XI p -> 2 * int_of_pos p + 1
let int_of_z = function Z0 -> 0 | Zpos p -> int_of_pos p | Zneg p -> - (int_of_pos p)

let () =
  let buf = Buffer.create 65536 in
  (try
     while true do
       let line = input_line stdin in
       let toks = List.filter (fun s -> s <> "") (String.split_on_char ' ' line) in
       let inp = List.map (fun s -> z_of_int (int_of_string s)) toks in
       let out = dispatch inp in
       Buffer.clear buf;
       List.iteri (fun i z -> if i > 0 then Buffer.add_char buf ' '; Buffer.add_string buf (string_of_int (int_of_z z))) out;
       print_endline (Buffer.contents buf)
     done
   with End_of_file -> ())
