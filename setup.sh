#!/bin/bash
# setup_cmd: full clean .vo build of the Coq development (facts regenerated from /repo/src),
# extraction, and build of the OCaml model runner.  Offline; uses only files on disk.
set -e
cd "$(dirname "$0")"
export PYTHONPATH=/repo/src:/verif/harness PYTHONHASHSEED=0 PYTHONDONTWRITEBYTECODE=1
rm -f coq/Makefile.coq coq/Makefile.coq.conf ocaml/modelrun
rm -rf ocaml/gen
find coq -name '*.vo' -o -name '*.vos' -o -name '*.vok' -o -name '*.glob' -o -name '.*.aux' | xargs rm -f
/venv/bin/python -c "
from evh.common import build
info = build()
print('setup: coq make %ss' % info.get('make_s'))
print(info.get('make_tail','')[-600:])
"
test -x ocaml/modelrun
echo "setup ok"
