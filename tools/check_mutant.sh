#!/bin/bash
# usage: tools/check_mutant.sh Cxx /path/to/worktree [tier]   -- runs the check of a COPY of /verif against another checkout of execnet
# (isolated: own coq build directory, evidence and replays; /repo and /verif are not touched)
p=$1; wt=$2; tier=${3:-quick}
copy=/var/tmp/verif_copy_$p
rm -rf $copy; mkdir -p $copy
rsync -a --exclude .git --exclude replays /verif/ $copy/
cd $copy && EXECNET_REPO=$wt ./check $p --tier $tier 2>&1 | grep -E "^VIOLATION|^KNOWN-FINDING|$p $tier" | cut -c1-220
for f in $(ls -t $copy/replays/*.json 2>/dev/null | head -3); do python3 - $f <<'PY'
import json,sys
d=json.load(open(sys.argv[1])); print("   replay:", d.get("kind"), d.get("signature"), [b.get("name") for b in d.get("no_longer_checks", d.get("broken", []))][:4])
PY
done
rm -rf $copy
