#!/bin/bash
# usage: tools/confirm_mutant.sh Cxx "<pytest targets>" [round]  -- confirms a seeded change in /var/tmp/mut<round>/Cxx and stores it under seeded/Cxx/round<round>
p=$1; tests=${2:-testing}; round=${3:-2}
wt=/var/tmp/mut$round/$p
cd $wt || exit 1
git apply --check -R patch.diff 2>/dev/null || { git checkout -- src; git apply patch.diff; }
PYTHONPATH=$wt/src timeout 150 /venv/bin/python demo.py > /var/tmp/demo_with_$p.out 2>&1; with=$?
git checkout -- src
PYTHONPATH=$wt/src timeout 150 /venv/bin/python demo.py > /var/tmp/demo_without_$p.out 2>&1; without=$?
git apply patch.diff
suite=$(PYTHONPATH=$wt/src timeout 1800 /venv/bin/python -m pytest -q -p no:cacheprovider $tests 2>&1 | grep -E "passed|failed|^FAILED" | tr '\n' ' ' | cut -c1-600)
echo "$p demo_with=$with demo_without=$without suite: $suite"
mkdir -p /verif/seeded/$p/round$round
cp patch.diff demo.py notes.md /verif/seeded/$p/round$round/
python3 - "$p" "$with" "$without" "$suite" "$round" <<'PY'
import json,sys
p,w,wo,suite,rnd=sys.argv[1:6]
json.dump({"property":p,"round":int(rnd),"base":"/repo HEAD with the fix commits","confirmed_by_me":{"demo_exit_with_patch":int(w),"demo_exit_without_patch":int(wo),"suite":suite},
 "note":"always-failing test_dont_write_bytecode and load-flaky test_channel_passing_over_channel / test__rinfo / test_waitclose_on_remote_killed fail the same way without the patch"},
 open("/verif/seeded/%s/round%s/meta.json"%(p,rnd),"w"),indent=1)
PY
