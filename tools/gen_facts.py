#!/usr/bin/env python3
"""Translator: /repo/src/execnet/*.py  ->  /verif/coq/gen/Facts.v  (+ facts.json)

Fail-closed: every fact has an extractor that locates a class/function by qualified name and
matches an expected AST shape; if the name is missing or the shape is not recognised the fact
is emitted as its `Unknown` value (given per fact) and the dependent `cfg_ok` lemma in
coq/props fails to compile.  Nothing here imports execnet: only `ast` over the source text.

Also records a digest of the normalised AST (docstrings and trace/log calls stripped) of every
modelled function; a digest change is not an alarm, it escalates the correspondence check.
"""
from __future__ import annotations

import ast
import hashlib
import json
import os
import sys

SRC = os.environ.get("EXECNET_SRC", "/repo/src/execnet")
OUT_V = os.path.join(os.path.dirname(os.path.abspath(__file__)), "..", "coq", "gen", "Facts.v")
OUT_J = os.path.join(os.path.dirname(os.path.abspath(__file__)), "..", "coq", "gen", "facts.json")

_trees: dict[str, ast.Module] = {}


def tree(fn: str) -> ast.Module:
    if fn not in _trees:
        with open(os.path.join(SRC, fn), encoding="utf-8") as f:
            _trees[fn] = ast.parse(f.read(), filename=fn)
    return _trees[fn]


def find(fn: str, qual: str) -> ast.AST:
    """locate Class.method / function / Class by dotted name among module- and class-level defs"""
    node: ast.AST = tree(fn)
    for part in qual.split("."):
        for ch in getattr(node, "body", []):
            if isinstance(ch, (ast.ClassDef, ast.FunctionDef)) and ch.name == part:
                node = ch
                break
        else:
            raise LookupError(f"{fn}:{qual}")
    return node


class _Strip(ast.NodeTransformer):
    TRACE = {"_trace", "trace", "log", "notrace"}

    def visit_Expr(self, node: ast.Expr):
        v = node.value
        if isinstance(v, ast.Constant) and isinstance(v.value, str):
            return None
        if isinstance(v, ast.Call):
            f = v.func
            name = f.attr if isinstance(f, ast.Attribute) else getattr(f, "id", None)
            if name in self.TRACE:
                return None
        return node


def digest(fn: str, qual: str) -> str:
    try:
        node = find(fn, qual)
    except LookupError:
        return "missing"
    import copy

    node = _Strip().visit(copy.deepcopy(node))
    return hashlib.sha256(ast.dump(node, annotate_fields=False).encode()).hexdigest()[:16]


def unparse(n: ast.AST) -> str:
    return ast.unparse(n)


# --------------------------------------------------------------------------------------------
# facts: each returns a Coq term (string); on any exception the Unknown value is used

FACTS: list[tuple[str, str, str, callable]] = []  # name, coq type, unknown term, extractor


def fact(name: str, typ: str, unknown: str):
    def deco(f):
        FACTS.append((name, typ, unknown, f))
        return f

    return deco


def coq_string(s: str) -> str:
    return '"' + s.replace('"', '""') + '"'


def coq_z(n: int) -> str:
    return f"({n})%Z" if n < 0 else f"{n}%Z"


CMP = {ast.Lt: "CLt", ast.LtE: "CLe", ast.Gt: "CGt", ast.GtE: "CGe", ast.Eq: "CEq", ast.NotEq: "CNe"}

# ---- C19 ------------------------------------------------------------------------------------


@fact("cf_newline", "nl_kind", "NlUnknown")
def _cf_newline():
    """How ChannelFileRead.readline finds the line end: a str literal "\\n" only
    (NlStrLiteral), or a newline chosen according to the buffer's type (NlByBufferType)."""
    f = find("gateway_base.py", "ChannelFileRead.readline")
    src = unparse(f)
    consts = [n.value for n in ast.walk(f) if isinstance(n, ast.Constant)]
    has_str_nl = "\n" in consts
    has_bytes_nl = b"\n" in consts
    finds = [n for n in ast.walk(f) if isinstance(n, ast.Call) and isinstance(n.func, ast.Attribute) and n.func.attr == "find"]
    if len(finds) != 1:
        raise ValueError("readline: expected exactly one .find() call")
    if has_str_nl and has_bytes_nl and "isinstance" in src:
        return "NlByBufferType"
    if has_str_nl and not has_bytes_nl:
        return "NlStrLiteral"
    raise ValueError("unrecognised newline handling")


@fact("cf_read_loop_cmp", "cmp", "CUnknown")
def _cf_read_loop_cmp():
    """comparison in `while len(self._buffer) < n` of ChannelFileRead.read"""
    f = find("gateway_base.py", "ChannelFileRead.read")
    loops = [n for n in ast.walk(f) if isinstance(n, ast.While)]
    if len(loops) != 1:
        raise ValueError("read: expected one while loop")
    t = loops[0].test
    if not (isinstance(t, ast.Compare) and len(t.ops) == 1):
        raise ValueError("read: loop test shape")
    left, right = unparse(t.left), unparse(t.comparators[0])
    op = type(t.ops[0])
    if left.startswith("len(") and right == "n":
        return CMP[op]
    if left == "n" and right.startswith("len("):
        return {"CLt": "CGt", "CGt": "CLt", "CLe": "CGe", "CGe": "CLe"}.get(CMP[op], CMP[op])
    raise ValueError("read: loop test operands")


@fact("cf_reader_shape_ok", "bool", "false")
def _cf_reader_shape_ok():
    """ChannelFileRead.read fills the buffer, closes on EOFError (ChannelFile.close: only the channel, iff proxyclose)
    and THEN slices the answer out of the buffer it kept; the reader class defines nothing but __init__/read/readline"""
    cls = find("gateway_base.py", "ChannelFileRead")
    names = [st.name for st in cls.body if isinstance(st, ast.FunctionDef)]
    ok = names == ["__init__", "read", "readline"] and [unparse(b) for b in cls.bases] == ["ChannelFile"]
    rd = [_src(n) for n in _body_nodoc(find("gateway_base.py", "ChannelFileRead.read"))]
    ok = ok and rd == [
        "try:\n    if self._buffer is None:\n        self._buffer = cast(str, self.channel.receive())\n    while len(self._buffer) < n:\n        self._buffer += cast(str, self.channel.receive())\nexcept EOFError:\n    self.close()",
        "if self._buffer is None:\n    ret = ''\nelse:\n    ret = self._buffer[:n]\n    self._buffer = self._buffer[n:]",
        "return ret",
    ]
    cl = [_src(n) for n in _body_nodoc(find("gateway_base.py", "ChannelFile.close"))]
    ok = ok and cl == ["if self._proxyclose:\n    self.channel.close()"]
    return "true" if ok else "false"


# ---- C20 ------------------------------------------------------------------------------------


def _raises(node: ast.AST, excname: str) -> bool:
    for n in ast.walk(node):
        if isinstance(n, ast.Raise) and n.exc is not None:
            e = n.exc.func if isinstance(n.exc, ast.Call) else n.exc
            if getattr(e, "id", None) == excname:
                return True
    return False


@fact("xspec_env_dup_checked", "bool", "false")
def _xspec_env_dup_checked():
    """XSpec.__init__: is there a ValueError-raising test that looks at self.env for env: keys?"""
    f = find("xspec.py", "XSpec.__init__")
    loops = [n for n in f.body if isinstance(n, ast.For)]
    if len(loops) != 1 or unparse(loops[0].iter) != "string.split('//')":
        raise ValueError("XSpec.__init__: loop over string.split('//') not found")
    dup_tests = [n.test for n in ast.walk(loops[0]) if isinstance(n, ast.If) and _raises(ast.Module(body=n.body, type_ignores=[]), "ValueError")]
    if not any("key in self.__dict__" in unparse(t) for t in dup_tests):
        raise ValueError("XSpec.__init__: `key in self.__dict__` duplicate test not found")
    return "true" if any("self.env" in unparse(t) for t in dup_tests) else "false"


def _with_blocks(f: ast.AST, lockname: str):
    return [n for n in ast.walk(f) if isinstance(n, ast.With) and any(lockname in unparse(i.context_expr) for i in n.items)]


def _inside(block: ast.AST, pred) -> bool:
    return any(pred(n) for n in ast.walk(block))


@fact("grp_alloc_read_locked", "bool", "false")
def _grp_alloc_read_locked():
    """Group.allocate_id: every read and the increment of _autoidcounter sit inside `with self._autoidlock`, and nothing else in
    the class assigns the counter (it only grows: an id handed out once is never handed out again, also across terminate())"""
    f = find("multi.py", "Group.allocate_id")
    uses = [n for n in ast.walk(f) if isinstance(n, ast.Attribute) and n.attr == "_autoidcounter"]
    if len(uses) < 2:
        raise ValueError("allocate_id: counter read/increment not found")
    locked = set()
    for w in _with_blocks(f, "_autoidlock"):
        for n in ast.walk(w):
            if isinstance(n, ast.Attribute) and n.attr == "_autoidcounter":
                locked.add(id(n))
    if not all(id(u) in locked for u in uses):
        return "false"
    # the counter only ever grows: in the whole class it is assigned in __init__ (= 0) and incremented in allocate_id, nowhere else
    cls = find("multi.py", "Group")
    for fn in [n for n in cls.body if isinstance(n, ast.FunctionDef)]:
        for n in ast.walk(fn):
            tg = []
            if isinstance(n, ast.Assign):
                tg = n.targets
            elif isinstance(n, (ast.AugAssign, ast.AnnAssign)):
                tg = [n.target]
            elif isinstance(n, ast.Delete):
                tg = n.targets
            for t in tg:
                for a in ast.walk(t):
                    if isinstance(a, ast.Attribute) and a.attr == "_autoidcounter":
                        if fn.name == "__init__" and isinstance(n, ast.Assign) and unparse(n.value) == "0":
                            continue
                        if fn.name == "allocate_id" and isinstance(n, ast.AugAssign) and isinstance(n.op, ast.Add) and unparse(n.value) == "1":
                            continue
                        return "false"
        if "setattr(" in unparse(fn) and "_autoidcounter" in unparse(fn):
            return "false"
    return "true"


@fact("mc_receive_queue_ok", "bool", "false")
def _mc_receive_queue_ok():
    """MultiChannel.make_receive_queue: every member channel gets setcallback(putreceived[, endmarker=endmarker]); 'no endmarker'
    is a private sentinel object compared by identity (None, False, 0 are endmarker VALUES); the callback queues (channel, obj)"""
    f = find("multi.py", "MultiChannel.make_receive_queue")
    t = _src(f)
    ok = "if endmarker is NO_ENDMARKER_WANTED:\n                ch.setcallback(putreceived)\n            else:\n                ch.setcallback(putreceived, endmarker=endmarker)" in t
    ok = ok and "self._queue.put((channel, obj))" in t and _src(f.args.defaults[0]) == "NO_ENDMARKER_WANTED"
    src = open(os.path.join(SRC, "multi.py")).read()
    ok = ok and src.count("NO_ENDMARKER_WANTED = object()") == 1
    return "true" if ok else "false"


@fact("xspec_eq_by_text", "bool", "false")
def _xspec_eq_by_text():
    """XSpec compares and hashes by its text alone (attributes set later -- id, execmodel by Group.makegateway -- do not take part)"""
    ok = [_src(n) for n in _body_nodoc(find("xspec.py", "XSpec.__hash__"))] == ["return hash(self._spec)"]
    ok = ok and [_src(n) for n in _body_nodoc(find("xspec.py", "XSpec.__eq__"))] == ["return self._spec == getattr(other, '_spec', None)"]
    ok = ok and [_src(n) for n in _body_nodoc(find("xspec.py", "XSpec.__ne__"))] == ["return self._spec != getattr(other, '_spec', None)"]
    ok = ok and [_src(n) for n in _body_nodoc(find("xspec.py", "XSpec.__str__"))] == ["return self._spec"]
    return "true" if ok else "false"


@fact("grp_lookup_ok", "bool", "false")
def _grp_lookup_ok():
    """Group lookup: an int indexes the member list, anything else scans A SNAPSHOT of it (a concurrent _unregister cannot make the scan
    skip a member) for the member that IS the key (gateway objects
    compare by identity: Gateway defines no __eq__) or whose id equals it; membership is lookup; iteration copies the list;
    Gateway.exit does nothing unless the gateway object is a member; _unregister removes that object"""
    g = [_src(n) for n in _body_nodoc(find("multi.py", "Group.__getitem__"))]
    ok = g == ["if isinstance(key, int):\n    return self._gateways[key]", "for gw in list(self._gateways):\n    if gw == key or gw.id == key:\n        return gw", "raise KeyError(key)"]
    c = [_src(n) for n in _body_nodoc(find("multi.py", "Group.__contains__"))]
    ok = ok and c == ["try:\n    self[key]\n    return True\nexcept KeyError:\n    return False"]
    ok = ok and [_src(n) for n in _body_nodoc(find("multi.py", "Group.__iter__"))] == ["return iter(list(self._gateways))"]
    ok = ok and [_src(n) for n in _body_nodoc(find("multi.py", "Group.__len__"))] == ["return len(self._gateways)"]
    cls = find("gateway.py", "Gateway")
    ok = ok and not any(isinstance(n, ast.FunctionDef) and n.name in ("__eq__", "__hash__") for n in cls.body)
    base = find("gateway_base.py", "BaseGateway")
    ok = ok and not any(isinstance(n, ast.FunctionDef) and n.name in ("__eq__", "__hash__") for n in base.body)
    e = _src(_Strip().visit(__import__("copy").deepcopy(find("gateway.py", "Gateway.exit"))))
    ok = ok and "if self not in self._group:\n        return\n    self._group._unregister(self)" in e
    u = _src(find("multi.py", "Group._unregister"))
    ok = ok and "self._gateways.remove(gateway)" in u
    return "true" if ok else "false"


@fact("grp_explicit_checked", "bool", "false")
def _grp_explicit_checked():
    """Group.allocate_id rejects (ValueError) an explicit spec.id that is already a member"""
    f = find("multi.py", "Group.allocate_id")
    for n in ast.walk(f):
        if isinstance(n, ast.If) and "spec.id in self" in unparse(n.test) and "spec.id is None" not in unparse(n.test) and _raises(ast.Module(body=n.body, type_ignores=[]), "ValueError"):
            return "true"
    return "false"


@fact("grp_register_atomic", "bool", "false")
def _grp_register_atomic():
    """Group._register: the membership test and the append are inside one `with <lock>` block"""
    f = find("multi.py", "Group._register")
    appends = [n for n in ast.walk(f) if isinstance(n, ast.Call) and unparse(n.func) == "self._gateways.append"]
    if len(appends) != 1:
        raise ValueError("_register: append not found")
    for w in [n for n in ast.walk(f) if isinstance(n, ast.With)]:
        src = unparse(w)
        if "lock" in unparse(w.items[0].context_expr).lower() and "self._gateways.append" in src and "not in self" in src:
            return "true"
    return "false"


# ---- C08 / C04 --------------------------------------------------------------------------------


def _calls(f: ast.AST, dotted: str):
    return [n for n in ast.walk(f) if isinstance(n, ast.Call) and unparse(n.func) == dotted]


@fact("msg_header_format", "string", '"?"')
def _msg_header_format():
    """struct format of the frame header in Message.to_io and from_io (must agree)"""
    a = find("gateway_base.py", "Message.to_io")
    b = find("gateway_base.py", "Message.from_io")
    pa = [c.args[0].value for c in _calls(a, "struct.pack")]
    pb = [c.args[0].value for c in _calls(b, "struct.unpack")]
    if len(pa) != 1 or pa != pb:
        raise ValueError("header formats differ / not found")
    reads = [c.args[0].value for c in _calls(b, "io.read") if isinstance(c.args[0], ast.Constant)]
    import struct as _s

    if reads != [_s.calcsize(pa[0])]:
        raise ValueError("header read size does not match the format")
    return coq_string(pa[0])


@fact("to_io_single_write", "bool", "false")
def _to_io_single_write():
    """Message.to_io performs exactly one io.write call, with header + payload, on every path"""
    f = find("gateway_base.py", "Message.to_io")
    ws = _calls(f, "io.write")
    if len(ws) != 1:
        return "false"
    if any(isinstance(n, (ast.If, ast.For, ast.While, ast.Try)) for n in ast.walk(f)):
        return "false"
    arg = unparse(ws[0].args[0])
    return "true" if arg in ("header + self.data",) else "false"


@fact("popen_write_shape", "wshape", "WOther")
def _popen_write_shape():
    f = find("gateway_base.py", "Popen2IO.write")
    ws = _calls(f, "self._write")
    if len(ws) == 1 and unparse(ws[0].args[0]) == "data" and not any(isinstance(n, (ast.For, ast.While)) for n in ast.walk(f)):
        init = unparse(find("gateway_base.py", "Popen2IO.__init__"))
        if "self._write = getattr(outfile, 'buffer', outfile).write" in init:
            return "WFileWrite"
    return "WOther"


@fact("popen_streams_buffered", "bool", "false")
def _popen_streams_buffered():
    """the file objects a Popen2IO writes to are BUFFERED writers (one write() call holds the buffer lock, which is what makes
    a frame atomic between threads): the master's Popen(...) is called with the default bufsize, the worker's stdout comes from
    fdopen(dup(1), 'w', 1) -- a text wrapper whose .buffer Popen2IO.__init__ picks"""
    f = find("gateway_io.py", "Popen2IOMaster.__init__")
    calls = [n for n in ast.walk(f) if isinstance(n, ast.Call) and unparse(n.func).endswith("subprocess.Popen")]
    ok = len(calls) == 1 and sorted(k.arg or "**" for k in calls[0].keywords) == ["stdin", "stdout"] and len(calls[0].args) == 1
    ok = ok and "super().__init__(p.stdin, p.stdout, execmodel=execmodel)" in unparse(f)
    w = unparse(find("gateway_base.py", "init_popen_io"))
    ok = ok and "stdout = execmodel.fdopen(os.dup(1), 'w', 1)" in w and "io = Popen2IO(stdout, stdin, execmodel)" in w
    em = unparse(find("gateway_base.py", "ThreadExecModel.fdopen"))
    ok = ok and "return os.fdopen(fd, mode, bufsize, encoding='utf-8', closefd=closefd)" in em
    return "true" if ok else "false"


@fact("socket_io_blocking", "bool", "false")
def _socket_io_blocking():
    """the socket a SocketIO works on is a plain blocking one: created with socket.socket(AF_INET, SOCK_STREAM) and connected with
    connect(); no time-out is ever set (a time-out would turn a silent peer into an end of stream, or cut a slow sendall short)"""
    f = find("gateway_socket.py", "create_io")
    t = _src(f)
    ok = "sock = socket.socket(socket.AF_INET, socket.SOCK_STREAM)" in t and "io = SocketIO(sock, execmodel)" in t and "sock.connect((host, port))" in t
    src = open(os.path.join(SRC, "gateway_socket.py")).read()
    ok = ok and "settimeout" not in src and "create_connection" not in src and "setdefaulttimeout" not in src and "setblocking" not in src
    srv = open(os.path.join(SRC, "script", "socketserver.py")).read()
    ok = ok and "settimeout" not in srv and "setdefaulttimeout" not in srv
    return "true" if ok else "false"


@fact("socket_write_shape", "wshape", "WOther")
def _socket_write_shape():
    f = find("gateway_socket.py", "SocketIO.write")
    ws = _calls(f, "self.sock.sendall")
    if len(ws) != 1 or unparse(ws[0].args[0]) != "data":
        return "WOther"
    for w in [n for n in ast.walk(f) if isinstance(n, ast.With)]:
        if "lock" in unparse(w.items[0].context_expr).lower() and "self.sock.sendall" in unparse(w):
            return "WSendallLocked"
    return "WSendallUnlocked"


def _read_loop_ok(fn, qual, recv):
    f = find(fn, qual)
    loops = [n for n in ast.walk(f) if isinstance(n, ast.While)]
    if len(loops) != 1:
        return False
    t = unparse(loops[0].test)
    if t not in ("numbytes > len(buf)", "len(buf) < numbytes"):
        return False
    body = unparse(loops[0])
    if not ((recv + "(numbytes - len(buf))") in body and "raise EOFError" in body and "buf += " in body):
        return False
    # an empty read ends the call by EOFError UNCONDITIONALLY (also before the first byte: "nothing at all" is no valid answer
    # to read(n), the frame decoder relies on it): the test on the received piece has exactly one statement, the raise; the
    # loop has no break / return / continue; after the loop comes `return buf` only
    ifs = [n for n in loops[0].body if isinstance(n, ast.If)]
    if len(ifs) != 1 or not unparse(ifs[0].test).startswith("not ") or ifs[0].orelse:
        return False
    if len(ifs[0].body) != 1 or not isinstance(ifs[0].body[0], ast.Raise) or "EOFError" not in unparse(ifs[0].body[0]):
        return False
    if any(isinstance(n, (ast.Break, ast.Return, ast.Continue)) for n in ast.walk(loops[0])):
        return False
    after = f.body[f.body.index(loops[0]) + 1:] if loops[0] in f.body else None
    return after is not None and [unparse(n) for n in after] == ["return buf"]


@fact("boot_ack_read_unconditional", "bool", "false")
def _boot_ack_read_unconditional():
    """every bootstrap variant takes the worker's acknowledgement byte off the stream by a statement of its own (`s = io.read(1)`),
    never inside an `assert` (compiled away under -O: the byte would stay in front of the first frame); more generally no assert
    of the package contains a call that consumes or produces stream / channel data"""
    for fn in ("bootstrap_import", "bootstrap_exec", "bootstrap_socket"):
        f = find("gateway_bootstrap.py", fn)
        reads = [n for n in ast.walk(f) if isinstance(n, ast.Assign) and unparse(n) == "s = io.read(1)"]
        if len(reads) != 1:
            return "false"
    for mod in ("gateway_bootstrap.py", "gateway_base.py", "gateway_io.py", "gateway_socket.py", "gateway.py", "multi.py", "rsync.py", "rsync_remote.py"):
        tree = ast.parse(open(os.path.join(SRC, mod)).read())
        for a in [n for n in ast.walk(tree) if isinstance(n, ast.Assert)]:
            for c in [n for n in ast.walk(a) if isinstance(n, ast.Call) and isinstance(n.func, ast.Attribute)]:
                if c.func.attr in ("read", "recv", "receive", "write", "send", "sendall", "get", "put", "pop", "wait", "readline", "_read"):
                    return "false"
    return "true"


@fact("execmodel_primitives_ok", "bool", "false")
def _execmodel_primitives_ok():
    """every execution model builds its locks, events and queues from ITS OWN concurrency library (a threading lock does not
    exclude greenlets of one OS thread from each other: the receive lock of a gevent gateway would stop protecting setcallback's
    hand-over): Thread* -> threading / queue, Gevent* -> gevent.lock / gevent.event / gevent.queue, Eventlet* -> eventlet.*"""
    want = {
        "ThreadExecModel": {"Lock": "threading.RLock()", "RLock": "threading.RLock()", "Event": "threading.Event()", "queue": "queue"},
        "GeventExecModel": {"Lock": "gevent.lock.RLock()", "RLock": "gevent.lock.RLock()", "Event": "gevent.event.Event()", "queue": "gevent.queue"},
        "EventletExecModel": {"Lock": "eventlet.semaphore.Semaphore()", "RLock": "eventlet.semaphore.Semaphore()", "Event": "eventlet.green.threading.Event()", "queue": "eventlet.queue"},
    }
    for cls, meths in want.items():
        for m, expr in meths.items():
            f = find("gateway_base.py", cls + "." + m)
            rets = [unparse(n.value) for n in ast.walk(f) if isinstance(n, ast.Return) and n.value is not None]
            if rets != [expr]:
                if cls == "EventletExecModel":
                    # not installed here and not exercised: only required to stay inside its own library
                    if len(rets) == 1 and rets[0].startswith("eventlet."):
                        continue
                return "false"
    mt = find("gateway_base.py", "MainThreadOnlyExecModel")
    if [unparse(b) for b in mt.bases] != ["ThreadExecModel"] or any(isinstance(n, ast.FunctionDef) and n.name in ("Lock", "RLock", "Event", "queue") for n in mt.body):
        return "false"
    return "true"


@fact("read_loops_exact", "bool", "false")
def _read_loops_exact():
    """Popen2IO.read and SocketIO.read loop until exactly numbytes arrived and raise EOFError on an empty read"""
    ok = _read_loop_ok("gateway_base.py", "Popen2IO.read", "self._read") and _read_loop_ok("gateway_socket.py", "SocketIO.read", "self.sock.recv")
    return "true" if ok else "false"


@fact("from_io_exact", "bool", "false")
def _from_io_exact():
    """Message.from_io: header read of fixed size, then io.read(payload) with the decoded length, nothing delivered otherwise"""
    f = find("gateway_base.py", "Message.from_io")
    src = unparse(f)
    ok = "msgtype, channel, payload = struct.unpack" in src and "return Message(msgtype, channel, io.read(payload))" in src
    return "true" if ok else "false"


# ---- C01 / C12 / C13 : the serializer -----------------------------------------------------------


def coq_list(items):
    return "[" + "; ".join(items) + "]"


@fact("opcode_table", "list (string * Z)", "[]")
def _opcode_table():
    """class opcode: NAME = b"x" in source order"""
    c = find("gateway_base.py", "opcode")
    out = []
    for st in c.body:
        if isinstance(st, ast.Assign) and len(st.targets) == 1 and isinstance(st.value, ast.Constant) and isinstance(st.value.value, bytes) and len(st.value.value) == 1:
            out.append(f"({coq_string(st.targets[0].id)}, {coq_z(st.value.value[0])})")
        elif isinstance(st, ast.Expr) and isinstance(st.value, ast.Constant):
            continue
        else:
            raise ValueError("opcode: unexpected statement " + unparse(st)[:40])
    return coq_list(out)


@fact("loader_table", "list (string * string)", "[]")
def _loader_table():
    """Unserializer: num2func[opcode.X] = load_y registrations with aliases resolved, sorted by opcode name"""
    c = find("gateway_base.py", "Unserializer")
    alias, reg = {}, {}
    for st in c.body:
        if isinstance(st, ast.FunctionDef):
            alias[st.name] = st.name
        elif isinstance(st, ast.Assign) and len(st.targets) == 1:
            t, v = st.targets[0], st.value
            if isinstance(t, ast.Name) and isinstance(v, ast.Name) and v.id in alias:
                alias[t.id] = alias[v.id]
            elif isinstance(t, ast.Subscript) and unparse(t.value) == "num2func" and unparse(t.slice).startswith("opcode.") and isinstance(v, ast.Name):
                name = unparse(t.slice)[7:]
                if name in reg:
                    raise ValueError("opcode registered twice: " + name)
                reg[name] = alias[v.id]
    return coq_list([f"({coq_string(k)}, {coq_string(reg[k])})" for k in sorted(reg)])


@fact("saver_table", "list (string * list string)", "[]")
def _saver_table():
    """_Serializer.save_<type>: the opcode names each one writes (in order of occurrence), sorted by method"""
    c = find("gateway_base.py", "_Serializer")
    out = []
    for st in c.body:
        if isinstance(st, ast.FunctionDef) and st.name.startswith("save_"):
            ops = [n.attr for n in ast.walk(st) if isinstance(n, ast.Attribute) and unparse(n.value) == "opcode"]
            order = sorted(((n.lineno, n.col_offset, n.attr) for n in ast.walk(st) if isinstance(n, ast.Attribute) and unparse(n.value) == "opcode"))
            out.append((st.name, [a for _, _, a in order]))
    out.sort()
    return coq_list([f"({coq_string(m)}, {coq_list([coq_string(o) for o in ops])})" for m, ops in out])


def _module_const(name):
    for st in tree("gateway_base.py").body:
        if isinstance(st, ast.Assign) and len(st.targets) == 1 and getattr(st.targets[0], "id", None) == name:
            return st.value
    raise LookupError(name)


@fact("dump_version", "Z", "(-1)%Z")
def _dump_version():
    v = _module_const("DUMPFORMAT_VERSION")
    if isinstance(v, ast.Call) and unparse(v.func) == "bchr" and isinstance(v.args[0], ast.Constant):
        return coq_z(v.args[0].value)
    raise ValueError("DUMPFORMAT_VERSION shape")


@fact("four_byte_int_max", "Z", "(-1)%Z")
def _four_byte_int_max():
    return coq_z(ast.literal_eval(_module_const("FOUR_BYTE_INT_MAX")))


@fact("float_formats", "string * string", '("?", "?")')
def _float_formats():
    a, b = _module_const("FLOAT_FORMAT"), _module_const("COMPLEX_FORMAT")
    return f"({coq_string(a.value)}, {coq_string(b.value)})"


@fact("int_lo_checked", "bool", "false")
def _int_lo_checked():
    """_save_integral's short branch tests a lower bound too (ints below -2**31 take the decimal-text opcode)"""
    f = find("gateway_base.py", "_Serializer._save_integral")
    ifs = [n for n in f.body if isinstance(n, ast.If)]
    if len(ifs) != 1:
        raise ValueError("_save_integral shape")
    t = ifs[0].test
    src = unparse(t)
    if src == "i <= FOUR_BYTE_INT_MAX":
        return "false"
    if src in ("-FOUR_BYTE_INT_MAX - 1 <= i <= FOUR_BYTE_INT_MAX", "FOUR_BYTE_INT_MIN <= i <= FOUR_BYTE_INT_MAX"):
        return "true"
    raise ValueError("_save_integral test: " + src)


@fact("loader_reads_exact", "bool", "false")
def _loader_reads_exact():
    """every fixed/length-prefixed read of the Unserializer goes through one helper that raises EOFError
    on a short read and LoadError on a negative length"""
    c = find("gateway_base.py", "Unserializer")
    helper = None
    for st in c.body:
        if isinstance(st, ast.FunctionDef) and st.name in ("_read", "_read_exact"):
            src = unparse(st)
            if "raise EOFError" in src and "raise LoadError" in src and "self.stream.read(" in src and "< 0" in src and "len(" in src:
                helper = st.name
    if helper is None:
        return "false"
    for name in ("_read_int4", "load_float", "load_complex", "_read_byte_string"):
        src = unparse(find("gateway_base.py", "Unserializer." + name))
        if "self.stream.read(" in src or f"self.{helper}(" not in src:
            return "false"
    return "true"


@fact("loader_errors_typed", "bool", "false")
def _loader_errors_typed():
    """Unserializer.load turns every other exception of a loader into LoadError"""
    f = find("gateway_base.py", "Unserializer.load")
    for tr in [n for n in ast.walk(f) if isinstance(n, ast.Try)]:
        if "loader(self)" in unparse(ast.Module(body=tr.body, type_ignores=[])):
            for h in tr.handlers:
                if h.type is not None and unparse(h.type) == "Exception" and _raises(ast.Module(body=h.body, type_ignores=[]), "LoadError"):
                    return "true"
    return "false"


@fact("ser_int_text_ok", "bool", "false")
def _ser_int_text_ok():
    """big ints travel as their decimal text, produced and read by the interpreter's own int <-> str conversion in ONE piece
    (no chunking, no caching): _save_integral writes str(i) (py2 'L' suffix stripped) as a byte sequence, load_longint is
    int(<the byte string>), LONGLONG shares it"""
    sv = [_src(n) for n in _body_nodoc(find("gateway_base.py", "_Serializer._save_integral"))]
    ok = sv == ["if -FOUR_BYTE_INT_MAX - 1 <= i <= FOUR_BYTE_INT_MAX:\n    self._write(short_op)\n    self._write_int4(i)\nelse:\n    self._write(long_op)\n    self._write_byte_sequence(str(i).rstrip('L').encode('ascii'))"]
    ld = [_src(n) for n in _body_nodoc(find("gateway_base.py", "Unserializer.load_longint"))]
    ok = ok and ld == ["s = self._read_byte_string()", "self.stack.append(int(s))"]
    cls = _src(find("gateway_base.py", "Unserializer"))
    ok = ok and "load_longlong = load_longint" in cls
    fl = [_src(n) for n in _body_nodoc(find("gateway_base.py", "_Serializer.save_float"))]
    ok = ok and fl == ["self._write(opcode.FLOAT)", "self._write(struct.pack(FLOAT_FORMAT, flt))"]
    return "true" if ok else "false"


@fact("load_py2string_latin1", "bool", "false")
def _load_py2string_latin1():
    """the Python-2 str opcode loads as bytes, or -- with py2str_as_py3str -- as those bytes decoded as latin-1, one character per byte, whatever the bytes are"""
    b = [_src(n) for n in _body_nodoc(find("gateway_base.py", "Unserializer.load_py2string"))]
    ok = b == ["as_bytes = self._read_byte_string()", "if self.py2str_as_py3str:\n    s: bytes | str = as_bytes.decode('latin-1')\nelse:\n    s = as_bytes", "self.stack.append(s)"]
    return "true" if ok else "false"


@fact("load_stream_incremental", "bool", "false")
def _load_stream_incremental():
    """load(stream) hands the caller's stream itself to the Unserializer, whose load reads ONE byte for the version and ONE
    byte per opcode (loaders read exactly their payload: loader_reads_exact), so a record ends at its STOP and the stream
    position is left right behind it; loads is load over a BytesIO; dump writes through the stream's write"""
    ld = [_src(n) for n in _body_nodoc(find("gateway_base.py", "load"))]
    ok = ld == ["strconfig = (py2str_as_py3str, py3str_as_py2str)", "return Unserializer(io, strconfig=strconfig).load(versioned=True)"]
    ls = [_src(n) for n in _body_nodoc(find("gateway_base.py", "loads"))]
    ok = ok and ls == ["io = BytesIO(bytestring)", "return load(io, py2str_as_py3str=py2str_as_py3str, py3str_as_py2str=py3str_as_py2str)"]
    dp = [_src(n) for n in _body_nodoc(find("gateway_base.py", "dump"))]
    ok = ok and dp == ["_Serializer(write=byteio.write).save(obj, versioned=True)"]
    init = find("gateway_base.py", "Unserializer.__init__")
    isrc = _src(init)
    ok = ok and "self.stream = stream" in isrc and ".read(" not in isrc
    f = find("gateway_base.py", "Unserializer.load")
    reads = [unparse(n) for n in ast.walk(f) if isinstance(n, ast.Call) and isinstance(n.func, ast.Attribute) and n.func.attr in ("read", "readline", "readinto", "readall", "getvalue", "seek")]
    ok = ok and reads == ["self.stream.read(1)", "self.stream.read(1)"]
    return "true" if ok else "false"


@fact("ser_stateless_dispatch", "bool", "false")
def _ser_stateless_dispatch():
    """_Serializer keeps no per-object state: __init__ binds only the output list / write function, _save dispatches on
    type(obj) alone (an object reachable twice is simply written twice)"""
    f = find("gateway_base.py", "_Serializer.__init__")
    targets = sorted({_src(t) for n in ast.walk(f) if isinstance(n, (ast.Assign, ast.AnnAssign)) for t in (n.targets if isinstance(n, ast.Assign) else [n.target])})
    ok = targets == ["self._streamlist", "self._write", "write"]
    sv = _src(find("gateway_base.py", "_Serializer._save"))
    ok = ok and "tp = type(obj)" in sv and "dispatch = self._dispatch[tp]" in sv and "methodname = 'save_' + tp.__name__" in sv and "dispatch(self, obj)" in sv
    ok = ok and "raise DumpError(" in sv and sv.count("self.") <= 4
    # a type is served by its NAME only if it is the builtin of that name (or the Channel class): a subclass called `int` is rejected
    ok = ok and "if meth is None or not (tp is Channel or tp is type(None) or getattr(builtins, tp.__name__, None) is tp):\n            raise DumpError(" in sv
    di = _src(find("gateway_base.py", "dumps_internal"))
    ok = ok and "return _Serializer().save(obj)" in di
    # containers hand EVERY member (keys included) to _save: no short cut past the exact-type dispatch
    sd = [_src(n) for n in _body_nodoc(find("gateway_base.py", "_Serializer.save_dict"))]
    ok = ok and sd == ["self._write(opcode.NEWDICT)", "for key, value in d.items():\n    self._write_setitem(key, value)"]
    ws = [_src(n) for n in _body_nodoc(find("gateway_base.py", "_Serializer._write_setitem"))]
    ok = ok and ws == ["self._save(key)", "self._save(value)", "self._write(opcode.SETITEM)"]
    sl = _src(find("gateway_base.py", "_Serializer.save_list"))
    ok = ok and "for i, item in enumerate(L):\n        self._write_setitem(i, item)" in sl and "isinstance(" not in sl
    for nm in ("save_tuple", "_write_set"):
        t = _src(find("gateway_base.py", "_Serializer." + nm))
        ok = ok and "self._save(item)" in t and "isinstance(" not in t
    return "true" if ok else "false"


@fact("send_dumps_before_write", "bool", "false")
def _send_dumps_before_write():
    """Channel.send serialises the item as an argument of the _send call (nothing is written before dumps succeeded)"""
    f = find("gateway_base.py", "Channel.send")
    calls = _calls(f, "self.gateway._send")
    if len(calls) == 1 and any(unparse(a) == "dumps_internal(item)" for a in calls[0].args):
        return "true"
    return "false"


@fact("strconfig_defaults", "(bool * bool) * (bool * bool)", "((true, true), (false, true))")
def _strconfig_defaults():
    """(defaults of loads()/load(), class defaults of Unserializer used by gateways/channels)"""
    def defaults(qual):
        f = find("gateway_base.py", qual)
        names = [a.arg for a in f.args.args]
        d = dict(zip(names[len(names) - len(f.args.defaults):], f.args.defaults))
        return (d["py2str_as_py3str"].value, d["py3str_as_py2str"].value)
    a, b = defaults("loads"), defaults("load")
    if a != b:
        raise ValueError("loads/load defaults differ")
    c = find("gateway_base.py", "Unserializer")
    cls = {}
    for st in c.body:
        if isinstance(st, ast.Assign) and isinstance(st.value, ast.Constant) and isinstance(st.value.value, bool):
            cls[st.targets[0].id] = st.value.value
    bo = lambda x: "true" if x else "false"
    return f"(({bo(a[0])}, {bo(a[1])}), ({bo(cls['py2str_as_py3str'])}, {bo(cls['py3str_as_py2str'])}))"


# ---- C09 / C14 : WorkerPool ---------------------------------------------------------------------


def _stmts_under_lock(f: ast.AST, lockname="_running_lock"):
    """source text of the statements inside `with self.<lock>` blocks of f"""
    return [unparse(w) for w in _with_blocks(f, lockname)]


@fact("pool_keep_pending", "bool", "false")
def _pool_keep_pending():
    """trigger_shutdown overwrites the primary-thread mailbox only when the ready event is NOT set"""
    f = find("gateway_base.py", "WorkerPool.trigger_shutdown")
    if len(_with_blocks(f, "_running_lock")) != 1:
        raise ValueError("trigger_shutdown: lock block")
    for n in ast.walk(f):
        if isinstance(n, ast.If) and "self._primary_thread_task = None" in unparse(ast.Module(body=n.body, type_ignores=[])):
            t = unparse(n.test)
            return "true" if ("is_set()" in t and "not " in t) else "false"
    raise ValueError("trigger_shutdown: mailbox assignment not found")


@fact("pool_mailbox_first", "bool", "false")
def _pool_mailbox_first():
    """integrate_as_primary_thread: `if self._shuttingdown: break` is nested inside `if reply is self._primary_thread_task`"""
    f = find("gateway_base.py", "WorkerPool.integrate_as_primary_thread")
    ws = _with_blocks(f, "_running_lock")
    if len(ws) != 1:
        raise ValueError("integrate: lock block")
    body = ws[0].body
    ifs = [n for n in body if isinstance(n, ast.If)]
    if len(ifs) == 1 and unparse(ifs[0].test) in ("reply is self._primary_thread_task", "self._primary_thread_task is reply"):
        inner = unparse(ast.Module(body=ifs[0].body, type_ignores=[]))
        if "if self._shuttingdown:\n    break" in inner and "primary_thread_task_ready.clear()" in inner:
            return "true"
    if len(ifs) == 2 and unparse(ifs[0].test) == "self._shuttingdown":
        return "false"
    raise ValueError("integrate: unrecognised locked section")


@fact("pool_structure_ok", "bool", "false")
def _pool_structure_ok():
    """the atomicity the model builds in: spawn tests _shuttingdown, adds to _running and hands over under the lock;
    _try_send writes the mailbox before it sets the event; _perform_spawn runs the task outside the lock and removes
    + wakes the waitall events inside one locked section; waitall tests and registers under the lock and waits outside"""
    sp = find("gateway_base.py", "WorkerPool.spawn")
    w = _stmts_under_lock(sp)
    ok = len(w) == 1 and all(x in w[0] for x in ("if self._shuttingdown", "self._running.add(reply)", "_try_send_to_primary_thread(reply)", "self.execmodel.start(self._perform_spawn", "except BaseException:\n            self._running.remove(reply)"))
    ts = unparse(find("gateway_base.py", "WorkerPool._try_send_to_primary_thread"))
    i1, i2 = ts.find("self._primary_thread_task = reply"), ts.find("primary_thread_task_ready.set()")
    ok = ok and 0 <= i1 < i2 and ts.count("self._primary_thread_task = reply") == 2 and "self._primary_thread_task.waitfinish()" in ts
    ps = find("gateway_base.py", "WorkerPool._perform_spawn")
    w = _stmts_under_lock(ps)
    ok = ok and len(w) == 1 and "reply.run()" not in w[0] and "reply.run()" in unparse(ps) and "self._running.remove(reply)" in w[0] and "waitall_event.set()" in w[0]
    ok = ok and unparse(ps).count("waitall_event.set()") == 1
    wa = find("gateway_base.py", "WorkerPool.waitall")
    w = _stmts_under_lock(wa)
    ok = ok and len(w) == 1 and "if not self._running" in w[0] and "self._waitall_events.append(" in w[0] and ".wait(" not in w[0] and ".wait(timeout=timeout)" in unparse(wa)
    rr = unparse(find("gateway_base.py", "Reply.run"))
    ok = ok and "finally:" in rr and "self._result_ready.set()" in rr
    # Reply.run keeps EVERY exception of the task for get() and lets none escape (the bookkeeping of _perform_spawn and of the
    # primary thread's loop follows the call)
    rb = [_src(n) for n in _body_nodoc(find("gateway_base.py", "Reply.run"))]
    ok = ok and rb == ["func, args, kwargs = self.task", "try:\n    try:\n        self._result = func(*args, **kwargs)\n    except BaseException as exc:\n        self._exc = exc\nfinally:\n    self._result_ready.set()\n    self.running = False"]
    return "true" if ok else "false"


# ---- C14 : main_thread_only execution ------------------------------------------------------------


@fact("exec_sets_complete_always", "bool", "false")
def _exec_sets_complete_always():
    """WorkerGateway.executetask sets _executetask_complete on EVERY exit: the set() sits in a `finally:` whose try
    block contains the whole body (exec, channel.close on every path)"""
    f = find("gateway_base.py", "WorkerGateway.executetask")
    for tr in [n for n in f.body if isinstance(n, ast.Try)]:
        fin = unparse(ast.Module(body=tr.finalbody, type_ignores=[])) if tr.finalbody else ""
        body = unparse(ast.Module(body=tr.body, type_ignores=[]))
        rest = [n for n in f.body if n is not tr]
        if not ("self._executetask_complete.set()" in fin or ("executetask_complete.set()" in fin and "getattr(self, '_executetask_complete', None)" in fin)) or not all(isinstance(n, ast.Expr) and isinstance(n.value, ast.Constant) for n in rest):
            continue
        if "exec(co, loc)" in body and "channel.close()" in body:
            return "true"
        if body.strip() == "self._executetask(item)":
            inner = unparse(find("gateway_base.py", "WorkerGateway._executetask"))
            if "exec(co, loc)" in inner and "channel.close()" in inner and "_executetask_complete" not in inner:
                return "true"
    return "false"


@fact("schedulexec_shape_ok", "bool", "false")
def _schedulexec_shape_ok():
    """_local_schedulexec (main_thread_only): wait(timeout=1) on the completion event, deadlock close + return
    when it expires, clear() afterwards, spawn(executetask) last; serve() creates the event set"""
    f = find("gateway_base.py", "WorkerGateway._local_schedulexec")
    src = unparse(f)
    i = [src.find(x) for x in ("self._executetask_complete.wait(timeout=1)", "channel.close(MAIN_THREAD_ONLY_DEADLOCK_TEXT)", "self._executetask_complete.clear()", "self._execpool.spawn(self.executetask")]
    ok = all(k >= 0 for k in i) and i == sorted(i) and "if not self._executetask_complete.wait(timeout=1)" in src
    # the expired wait ALWAYS answers with the deadlock error and returns (no further condition, no second wait)
    body = [n for n in f.body if not (isinstance(n, ast.Expr) and isinstance(getattr(n, "value", None), ast.Constant))]
    ok = ok and len(body) == 3 and isinstance(body[0], ast.If) and unparse(body[0].test) == "self._execpool.execmodel.backend == 'main_thread_only'"
    inner = [unparse(n) for n in body[0].body if not isinstance(n, ast.Assert)] if ok else []
    ok = ok and inner == ["if not self._executetask_complete.wait(timeout=1):\n    channel.close(MAIN_THREAD_ONLY_DEADLOCK_TEXT)\n    return", "self._executetask_complete.clear()"]
    ok = ok and unparse(body[1]) == "sourcetask_ = loads_internal(sourcetask)" and unparse(body[2]) == "self._execpool.spawn(self.executetask, (channel, sourcetask_))"
    sv = unparse(find("gateway_base.py", "WorkerGateway.serve"))
    ok = ok and "self._executetask_complete = self.execmodel.Event()" in sv and "self._executetask_complete.set()" in sv
    return "true" if ok else "false"


# ---- C02 / C03 / C07 / C10 : the receiving side of a channel -------------------------------------


def _src(node) -> str:
    return unparse(node) if not isinstance(node, list) else unparse(ast.Module(body=node, type_ignores=[]))


def _body_nodoc(f):
    return [n for n in f.body if not (isinstance(n, ast.Expr) and isinstance(n.value, ast.Constant) and isinstance(n.value.value, str))]


@fact("chan_setcb_atomic", "bool", "false")
def _chan_setcb_atomic():
    """Channel.setcallback: everything that touches the queue, registers the callback or calls it sits inside ONE
    `with self.gateway._receivelock:` block (taking the queue away, replaying the queued items, registering)"""
    f = find("gateway_base.py", "Channel.setcallback")
    body = _body_nodoc(f)
    withs = [n for n in body if isinstance(n, ast.With) and "self.gateway._receivelock" in _src(n.items[0].context_expr)]
    if len(withs) != 1:
        return "false"
    w = withs[0]
    for n in body:
        if n is w:
            continue
        t = _src(n)
        if "callback(" in t or "_items" in t or ".get(" in t or ".put(" in t or "_callbacks[" in t:
            return "false"
    t = _src(w)
    need = ["if self._items is None", "items = self._items", "self._items = None", "items.get(block=False)", "_callbacks[self.id] = (callback, endmarker, self._strconfig)",
            "if olditem is ENDMARKER", "items.put(olditem)", "if endmarker is not NO_ENDMARKER_WANTED", "callback(endmarker)", "callback(olditem)"]
    return "true" if all(x in t for x in need) else "false"


@fact("chan_setcb_handles_concurrent_close", "bool", "false")
def _chan_setcb_handles_concurrent_close():
    """setcallback's Empty branch: closed meanwhile (by the receiver's epilogue or close(), which do not hold the receive
    lock) -> the endmarker is delivered here; otherwise register and, if receiving has finished, whoever pops the
    registration delivers the endmarker (exactly once).  This makes the unlocked epilogue equivalent to one atomic step."""
    f = find("gateway_base.py", "Channel.setcallback")
    hs = [h for n in ast.walk(f) if isinstance(n, ast.Try) for h in n.handlers if "queue.Empty" in _src(h.type)]
    if len(hs) != 1:
        return "false"
    want = ["if self._closed or self._receiveclosed.is_set():\n    if endmarker is not NO_ENDMARKER_WANTED:\n        callback(endmarker)\n    break",
            "_callbacks[self.id] = (callback, endmarker, self._strconfig)",
            "if self.gateway._channelfactory.finished:\n    if _callbacks.pop(self.id, None) is not None:\n        if endmarker is not NO_ENDMARKER_WANTED:\n            callback(endmarker)",
            "break"]
    ok = [_src(n) for n in hs[0].body] == want
    fr = _src(find("gateway_base.py", "ChannelFactory._finished_receiving"))
    ok = ok and fr.index("self.finished = True") < fr.index("self._local_close(id, sendonly=True)")
    return "true" if ok else "false"


@fact("chan_close_shape_ok", "bool", "false")
def _chan_close_shape_ok():
    """Channel.close(): refused while the remote_exec body runs; when not yet closed -- from the open AND from the send-only
    state -- it notifies the peer (unless receiving has finished), records the error, sets _closed and _receiveclosed,
    queues the ENDMARKER and unregisters; send() refuses on a closed channel; isclosed() is _closed; __del__ of an
    open or send-only channel notifies the peer"""
    f = find("gateway_base.py", "Channel.close")
    body = _body_nodoc(f)
    t = [_src(n) for n in _Strip().visit(__import__("copy").deepcopy(f)).body]
    t = [x for x in t if not x.startswith("'") and not x.startswith('"')]
    ok = len(body) == 3 and t[0].startswith("if self._executing:\n    raise OSError(") and isinstance(body[2], ast.If) and _src(body[2].test) == "not self._closed"
    inner = [_src(n) for n in _Strip().visit(__import__("copy").deepcopy(body[2])).body]
    want = ["if not self._receiveclosed.is_set() or not self.gateway._channelfactory.finished:\n    put = self.gateway._send\n    try:\n        if error is not None:\n            put(Message.CHANNEL_CLOSE_ERROR, self.id, dumps_internal(error))\n        else:\n            put(Message.CHANNEL_CLOSE, self.id)\n    except OSError:",
            "if isinstance(error, RemoteError):\n    self._remoteerrors.append(error)", "self._closed = True", "self._receiveclosed.set()", "queue = self._items",
            "if queue is not None:\n    queue.put(ENDMARKER)", "self.gateway._channelfactory._no_longer_opened(self.id)"]
    ok = ok and inner == want and not body[2].orelse
    sd = _src(find("gateway_base.py", "Channel.send"))
    ok = ok and "if self.isclosed():\n        raise OSError(" in sd
    ic = [_src(n) for n in _body_nodoc(find("gateway_base.py", "Channel.isclosed"))]
    ok = ok and ic == ["return self._closed"]
    dl = _src(find("gateway_base.py", "Channel.__del__"))
    ok = ok and "elif self._receiveclosed.is_set() and self.gateway._channelfactory.finished:\n        pass" in dl and "msgcode = Message.CHANNEL_LAST_MESSAGE" in dl and "msgcode = Message.CHANNEL_CLOSE" in dl and "self.gateway._send(msgcode, self.id)" in dl
    return "true" if ok else "false"


@fact("chan_regular_close_is_not_eof", "bool", "false")
def _chan_regular_close_is_not_eof():
    """Channel._getremoteerror: a pending remote error first; otherwise None for a channel that was closed regularly (_closed) and the
    connection's EOFError (gateway._error) only for a channel that the end of receiving closed"""
    g = [_src(n) for n in _body_nodoc(find("gateway_base.py", "Channel._getremoteerror"))]
    ok = g == ["try:\n    return self._remoteerrors.pop(0)\nexcept IndexError:\n    if self._closed:\n        return None\n    try:\n        return self.gateway._error\n    except AttributeError:\n        pass\n    return None"]
    w = _src(find("gateway_base.py", "Channel.waitclose"))
    ok = ok and "error = self._getremoteerror()\n    if error:\n        raise error" in w
    r = _src(find("gateway_base.py", "Channel.receive"))
    ok = ok and "raise self._getremoteerror() or EOFError()" in r
    return "true" if ok else "false"


@fact("chan_receiver_locked", "bool", "false")
def _chan_receiver_locked():
    """BaseGateway._thread_receiver handles every message inside `with self._receivelock:`; handlers are reached
    only through Message.received"""
    f = find("gateway_base.py", "BaseGateway._thread_receiver")
    ok = False
    for w in ast.walk(f):
        if isinstance(w, ast.With) and _src(w.items[0].context_expr) == "self._receivelock" and "msg.received(self)" in _src(w.body):
            ok = True
    n = _src(f).count(".received(")
    return "true" if ok and n == 1 else "false"


@fact("chan_receive_shape_ok", "bool", "false")
def _chan_receive_shape_ok():
    """Channel.receive: refuses when the queue was taken by a callback, BLOCKS in itemqueue.get(timeout=timeout),
    puts an ENDMARKER back before raising the remote error or EOFError, returns anything else"""
    f = find("gateway_base.py", "Channel.receive")
    body = _body_nodoc(f)
    t = [_src(n) for n in body]
    if len(body) != 4:
        return "false"
    ok = t[0] == "itemqueue = self._items" and t[1].startswith("if itemqueue is None:\n    raise OSError(")
    tr = body[2]
    ok = ok and isinstance(tr, ast.Try) and _src(tr.body) == "x = itemqueue.get(timeout=timeout)" and len(tr.handlers) == 1 and "queue.Empty" in _src(tr.handlers[0].type) and "raise self.TimeoutError" in _src(tr.handlers[0].body) and len(tr.handlers[0].body) == 1   # an expired wait is a time-out and nothing else (no look at the closed flags: an item may arrive before them)
    ok = ok and t[3] == "if x is ENDMARKER:\n    itemqueue.put(x)\n    raise self._getremoteerror() or EOFError()\nelse:\n    return x"
    g = _src(find("gateway_base.py", "Channel._getremoteerror"))
    ok = ok and "self._remoteerrors.pop(0)" in g and "except IndexError" in g
    # iteration is receive() with EOFError turned into StopIteration (so it re-puts the ENDMARKER like receive)
    nx = [_src(n) for n in _body_nodoc(find("gateway_base.py", "Channel.next"))]
    ok = ok and nx == ["try:\n    return self.receive()\nexcept EOFError:\n    raise StopIteration from None"]
    ok = ok and "__next__ = next" in _src(find("gateway_base.py", "Channel")) and [_src(n) for n in _body_nodoc(find("gateway_base.py", "Channel.__iter__"))] == ["return self"]
    return "true" if ok else "false"


@fact("chan_local_close_order_ok", "bool", "false")
def _chan_local_close_order_ok():
    """ChannelFactory._local_close on a registered channel: error appended, _closed set, unregistered (the callback gets its endmarker on
    a channel that reports closed, and BEFORE waitclose can return), _receiveclosed set, all BEFORE the ENDMARKER is queued (a receiver that sees the ENDMARKER
    finds the error and the closed state)"""
    f = find("gateway_base.py", "ChannelFactory._local_close")
    body = _body_nodoc(f)
    if len(body) != 2 or _src(body[0]) != "channel = self._channels.get(id)" or not isinstance(body[1], ast.If) or _src(body[1].test) != "channel is None":
        return "false"
    gone = _src(body[1].body)
    if "self._no_longer_opened(id)" not in gone or "channel." in gone:
        return "false"
    t = [_src(n) for n in body[1].orelse]
    want = ["if remoteerror:\n    channel._remoteerrors.append(remoteerror)", "queue = channel._items", "if not sendonly:\n    channel._closed = True",
            "self._no_longer_opened(id)", "channel._receiveclosed.set()", "if queue is not None:\n    queue.put(ENDMARKER)"]
    if t != want:
        return "false"
    n = _src(find("gateway_base.py", "ChannelFactory._no_longer_opened"))
    ok = "self._channels.pop(id, None)" in n and "item = self._callbacks.pop(id, None)" in n and "if endmarker is not NO_ENDMARKER_WANTED:\n            try:\n                callback(endmarker)\n            except (Exception, SystemExit) as exc:" in n and "% exc" not in n
    return "true" if ok else "false"


@fact("chan_local_receive_shape_ok", "bool", "false")
def _chan_local_receive_shape_ok():
    """ChannelFactory._local_receive: a registered callback takes the item; else the item is queued on the registered
    channel's queue; else (no channel / queue taken) dropped"""
    f = find("gateway_base.py", "ChannelFactory._local_receive")
    body = _body_nodoc(f)
    if len(body) != 2 or _src(body[0]) != "channel = self._channels.get(id)" or not isinstance(body[1], ast.Try):
        return "false"
    tr = body[1]
    ok = _src(tr.body) == "callback, _endmarker, strconfig = self._callbacks[id]" and len(tr.handlers) == 1 and _src(tr.handlers[0].type) == "KeyError"
    h = _src(tr.handlers[0].body)
    ok = ok and h == "queue = channel._items if channel is not None else None\nif queue is None:\n    pass\nelse:\n    item = loads_internal(data, channel)\n    queue.put(item)"
    e = _src(tr.orelse)
    # with the Channel object gone the gateway's factory is used (channels inside the item), the captured strconfig applied
    ok = ok and e.startswith("try:\n    if channel is None:\n        unserializer = Unserializer(BytesIO(data), self.gateway)\n        unserializer.py2str_as_py3str, unserializer.py3str_as_py2str = strconfig\n        data = unserializer.load()\n    else:\n        data = loads_internal(data, channel, strconfig)\n    callback(data)\nexcept (Exception, SystemExit) as exc:")
    return "true" if ok else "false"


@fact("chan_cb_error_closes_with_error", "bool", "false")
def _chan_cb_error_closes_with_error():
    """a raising callback: CHANNEL_CLOSE_ERROR with the error text is sent to the peer and the channel is closed
    locally WITH that error"""
    f = find("gateway_base.py", "ChannelFactory._local_receive")
    t = _src(f)
    i = t.find("self.gateway._send(Message.CHANNEL_CLOSE_ERROR, id, dumps_internal(errortext))")
    j = t.find("self._local_close(id, RemoteError(errortext))")
    # ... and a connection that has gone meanwhile does not keep the local close (or the frames that arrived behind) from being handled
    guarded = "try:\n                self.gateway._send(Message.CHANNEL_CLOSE_ERROR, id, dumps_internal(errortext))\n            except OSError:\n                pass\n            self._local_close(id, RemoteError(errortext))" in _src(_Strip().visit(__import__("copy").deepcopy(f)))
    return "true" if 0 <= i < j and guarded and "errortext = self.gateway._geterrortext(exc)" in t else "false"


@fact("chan_errortext_ok", "bool", "false")
def _chan_errortext_ok():
    """the text that travels with CHANNEL_CLOSE_ERROR is traceback.format_exception(type, value, tb) joined (type, message and
    remote traceback), with `Type: message` as the fall-back; the worker reports every exception of the body except
    KeyboardInterrupt / EOFError handling through channel.close(errortext); the receiving side wraps the text in RemoteError"""
    g = _src(find("gateway_base.py", "geterrortext"))
    ok = "l = format_exception(type(exc), exc, exc.__traceback__)" in g and "errortext = ''.join(l)" in g and "errortext = f'{type(exc).__name__}: {exc}'" in g
    ok = ok and "format_exception=traceback.format_exception" in g
    # total and encodable: the fall-back of the fall-back, and the UTF-8 round trip of the result; nothing of the exception is
    # formatted outside geterrortext on the two reporting paths
    rets = [n for n in ast.walk(find("gateway_base.py", "geterrortext")) if isinstance(n, ast.Return)]
    ok = ok and len(rets) == 1 and _src(rets[0]) == "return errortext.encode('utf-8', 'backslashreplace').decode('utf-8')"
    ok = ok and "errortext = f'{type(exc).__name__}: <unprintable exception>'" in g
    lr = _src(find("gateway_base.py", "ChannelFactory._local_receive"))
    ok = ok and "% exc" not in lr and "{exc" not in lr and "{exc" not in _src(find("gateway_base.py", "WorkerGateway._executetask")).split("except BaseException as exc:")[1]
    e = _src(find("gateway_base.py", "WorkerGateway._executetask"))
    ok = ok and "except BaseException as exc:\n        if not channel.gateway._channelfactory.finished:\n            errortext = self._geterrortext(exc)\n            channel.close(errortext)\n            return" in _src(_Strip().visit(__import__("copy").deepcopy(find("gateway_base.py", "WorkerGateway._executetask"))))
    m = _src(find("gateway_base.py", "Message"))
    ok = ok and "error_message = loads_internal(message.data)" in m and "remote_error = RemoteError(error_message)" in m
    return "true" if ok else "false"


@fact("chan_handlers_ok", "bool", "false")
def _chan_handlers_ok():
    """the message handlers map CHANNEL_DATA / CLOSE / CLOSE_ERROR / LAST_MESSAGE onto _local_receive / _local_close"""
    m = _src(find("gateway_base.py", "Message"))
    need = ["gateway._channelfactory._local_receive(message.channelid, message.data)", "gateway._channelfactory._local_close(message.channelid)",
            "gateway._channelfactory._local_close(message.channelid, remote_error)", "gateway._channelfactory._local_close(message.channelid, sendonly=True)"]
    return "true" if all(x in m for x in need) else "false"


# ---- C04 : connection loss ---------------------------------------------------------------------------


@fact("loss_reads_raise_eof_with_text", "bool", "false")
def _loss_reads_raise_eof_with_text():
    """every transport's exact read raises EOFError WITH a message on short data (Message.from_io formats
    e.args[0]); from_io turns an empty / short header into EOFError"""
    ok = True
    for fn, qual in (("gateway_base.py", "Popen2IO.read"), ("gateway_socket.py", "SocketIO.read")):
        f = find(fn, qual)
        raises = [n for n in ast.walk(f) if isinstance(n, ast.Raise)]
        ok = ok and len(raises) == 1 and isinstance(raises[0].exc, ast.Call) and _src(raises[0].exc.func) == "EOFError" and len(raises[0].exc.args) == 1
    t = _src(find("gateway_base.py", "Message.from_io"))
    ok = ok and "except EOFError as e:" in t and "raise EOFError(\"couldn't load message header, \" + e.args[0]) from None" in t
    return "true" if ok else "false"


@fact("loss_socket_reset_is_eof", "bool", "false")
def _loss_socket_reset_is_eof():
    """SocketIO.read: a recv() that raises ConnectionError (reset by a dying peer) counts as end of stream -- the only
    exception the receive loop lets out of the socket read is EOFError (receiver thread: `except EOFError` records
    gateway._error, which waitclose() raises)"""
    f = find("gateway_socket.py", "SocketIO.read")
    tries = [n for n in ast.walk(f) if isinstance(n, ast.Try)]
    ok = len(tries) == 1 and _src(tries[0].body[0]) == "t = self.sock.recv(numbytes - len(buf))" and len(tries[0].handlers) == 1
    ok = ok and _src(tries[0].handlers[0].type) in ("ConnectionError", "OSError") and [_src(x) for x in tries[0].handlers[0].body] == ["t = b''"]
    r = _src(find("gateway_base.py", "BaseGateway._thread_receiver"))
    ok = ok and "except EOFError as exc:\n        log('EOF without prior gateway termination message')\n        self._error = exc" in r.replace('"', "'")
    return "true" if ok else "false"


@fact("loss_epilogue_ok", "bool", "false")
def _loss_epilogue_ok():
    """_thread_receiver: EOFError is remembered in self._error; whatever ended the loop, the epilogue runs
    _finished_receiving, _terminate_execution, close_read, close_write, _receivepool.trigger_shutdown in that order, none
    of them inside the try and none under the receive lock (user code may hold that lock: C11); that the epilogue behaves
    as ONE step with respect to setcallback is the fact chan_setcb_handles_concurrent_close"""
    f = find("gateway_base.py", "BaseGateway._thread_receiver")
    body = [n for n in _Strip().visit(__import__("copy").deepcopy(f)).body if not isinstance(n, ast.FunctionDef)]
    body = [n for n in body if not (isinstance(n, ast.Assign) and _src(n) == "io = self._io")]
    if not body or not isinstance(body[0], ast.Try):
        return "false"
    tr = body[0]
    hs = {_src(h.type): _src(h.body) for h in tr.handlers}
    # the last handler takes EVERYTHING else (BaseException: a SystemExit raised by a callback must not skip the epilogue) and
    # no handler re-raises
    ok = "EOFError" in hs and "self._error = exc" in hs["EOFError"] and "BaseException" in hs and not tr.finalbody and not tr.orelse
    ok = ok and _src(tr.handlers[-1].type) == "BaseException" and not any(isinstance(n, ast.Raise) for h in tr.handlers for n in ast.walk(h))
    ok = ok and [_src(n) for n in body[1:]] == ["self._channelfactory._finished_receiving()", "self._terminate_execution()", "self._io.close_read()", "self._io.close_write()", "self._receivepool.trigger_shutdown()"]
    return "true" if ok else "false"


@fact("loss_finished_receiving_ok", "bool", "false")
def _loss_finished_receiving_ok():
    """ChannelFactory._finished_receiving: finished = True under _writelock, then every registered channel
    _local_close(id, sendonly=True), then every registered callback _no_longer_opened(id); new() refuses when finished"""
    t = [_src(n) for n in _body_nodoc(find("gateway_base.py", "ChannelFactory._finished_receiving"))]
    ok = t == ["with self._writelock:\n    self.finished = True", "for id in self._list(self._channels):\n    self._local_close(id, sendonly=True)", "for id in self._list(self._callbacks):\n    self._no_longer_opened(id)"]
    n = find("gateway_base.py", "ChannelFactory.new")
    w = _body_nodoc(n)[0]
    first = _src(w.body[0]) if isinstance(w, ast.With) else ""
    ok = ok and first.startswith("if self.finished:\n    raise OSError(")
    return "true" if ok else "false"


@fact("loss_send_raises_oserror", "bool", "false")
def _loss_send_raises_oserror():
    """BaseGateway._send maps OSError/ValueError of the IO to OSError; remote_exec and newchannel go through
    ChannelFactory.new; hasreceiver is the receive pool's active count; receive/waitclose raise the stored error"""
    t = _src(find("gateway_base.py", "BaseGateway._send"))
    ok = "except (OSError, ValueError) as e:" in t and "raise OSError('cannot send (already closed?)') from e" in t
    ok = ok and "return self._channelfactory.new()" in _src(find("gateway_base.py", "BaseGateway.newchannel"))
    ok = ok and "channel = self.newchannel()" in _src(find("gateway.py", "Gateway.remote_exec"))
    ok = ok and "return self._receivepool.active_count() > 0" in _src(find("gateway.py", "Gateway.hasreceiver"))
    g = _src(find("gateway_base.py", "Channel._getremoteerror"))
    ok = ok and "return self.gateway._error" in g
    w = _src(find("gateway_base.py", "Channel.waitclose"))
    ok = ok and "error = self._getremoteerror()\n    if error:\n        raise error" in w
    return "true" if ok else "false"


# ---- C17 : rsync ------------------------------------------------------------------------------------


def _rsync_recv():
    f = find("rsync_remote.py", "serve_rsync")
    for n in f.body:
        if isinstance(n, ast.FunctionDef) and n.name == "receive_directory_structure":
            return f, n
    raise LookupError("receive_directory_structure")


def _file_decision():
    """the if/elif chain deciding what to do with a regular file that exists at the target"""
    _, r = _rsync_recv()
    for n in ast.walk(r):
        if isinstance(n, ast.If) and _src(n.test) == "msg_size != st.st_size":
            return n
    raise LookupError("decision table")


@fact("rsync_file_mode_exact", "bool", "false")
def _rsync_file_mode_exact():
    """mode-only difference of a regular file: chmod(path, msg_mode) exactly (no owner bits or-ed in), then return"""
    n = _file_decision()
    if _src(n.body) != "pass" or len(n.orelse) != 1 or not isinstance(n.orelse[0], ast.If):
        return "false"
    m = n.orelse[0]
    if _src(m.test) != "msg_mtime != st.st_mtime" or len(m.orelse) != 1 or not isinstance(m.orelse[0], ast.If):
        return "false"
    k = m.orelse[0]
    if _src(k.test) != "msg_mode and msg_mode != st.st_mode":
        return "false"
    return "true" if [_src(x) for x in k.body] == ["os.chmod(path, msg_mode)", "return"] else "false"


@fact("rsync_decision_table_ok", "bool", "false")
def _rsync_decision_table_ok():
    """size differs -> request; mtime differs -> request with the md5 of the target file; mode differs -> chmod only;
    else nothing; a target entry of another kind is removed; every request is recorded for the content phase"""
    _, r = _rsync_recv()
    n = _file_decision()
    m = n.orelse[0]
    k = m.orelse[0]
    ok = _src(m.body) == "with open(path, 'rb') as fp:\n    checksum = md5(fp.read()).digest()"
    ok = ok and [_src(x) for x in k.orelse] == ["return"] and _src(k.body[-1]) == "return"
    t = _src(r)
    ok = ok and "if stat.S_ISREG(st.st_mode):" in t and "else:\n                remove(path)" in t
    ok = ok and "channel.send(('send', (relcomponents, checksum)))\n        modifiedfiles.append((path, msg))" in t
    ok = ok and "try:\n        st = os.lstat(path)\n    except OSError:\n        st = None\n    msg = channel.receive()" in t
    return "true" if ok else "false"


@fact("rsync_dir_phase_ok", "bool", "false")
def _rsync_dir_phase_ok():
    """a directory message: a non-directory in the way is unlinked, the directory created, chmod(mode | 0o700), every
    listed entry received recursively, and with delete every unlisted entry removed"""
    _, r = _rsync_recv()
    t = _src(r)
    need = ["if isinstance(msg, list):", "if st and (not stat.S_ISDIR(st.st_mode)):\n            os.unlink(path)\n            st = None", "if not st:\n            os.makedirs(path)",
            "mode = msg.pop(0)", "os.chmod(path, mode | 448)", "for entryname in msg:\n            destpath = os.path.join(path, entryname)\n            receive_directory_structure(destpath, [*relcomponents, entryname])\n            entrynames[entryname] = True",
            "if options.get('delete'):\n            for othername in os.listdir(path):\n                if othername not in entrynames:\n                    otherpath = os.path.join(path, othername)\n                    remove(otherpath)"]
    f, _ = _rsync_recv()
    rm = [n for n in f.body if isinstance(n, ast.FunctionDef) and n.name == "remove"]
    ok = all(x in t for x in need) and len(rm) == 1
    # remove(): unlink first (that is what removes a symlink, also one to a directory), rmtree only as the fall-back
    ok = ok and [_src(x) for x in rm[0].body] == ["assert path.startswith(destdir)", "try:\n    os.unlink(path)\nexcept OSError:\n    shutil.rmtree(path, True)"]
    return "true" if ok else "false"


@fact("rsync_content_phase_ok", "bool", "false")
def _rsync_content_phase_ok():
    """content phase: for every requested file, data is written when present, and chmod(mode) + utime(mtime) are applied
    in any case (also when the content turned out to be identical); sender: md5 short-cut, report, send"""
    f, _ = _rsync_recv()
    loops = [n for n in f.body if isinstance(n, ast.For) and _src(n.iter) == "modifiedfiles"]
    if len(loops) != 1:
        return "false"
    body = loops[0].body
    t = [_src(x) for x in body]
    ok = t[0] == "data = cast(bytes, channel.receive())" and t[1].startswith("channel.send(('ack',")
    ifs = [x for x in body if isinstance(x, ast.If) and _src(x.test) == "data is not None"]
    ok = ok and len(ifs) == 1 and "with open(path, 'wb') as fp:\n        fp.write(data)" in _src(ifs[0]) and not ifs[0].orelse
    ok = ok and not any(isinstance(x, (ast.Continue, ast.Break, ast.Return)) for b in body for x in ast.walk(b))
    trs = [x for x in body if isinstance(x, ast.Try)]
    ok = ok and len(trs) == 1 and _src(trs[0].body) == "if mode:\n    os.chmod(path, mode)\nos.utime(path, (time, time))"
    si = _src(find("rsync.py", "RSync._send_item"))
    ok = ok and "if checksum is not None and checksum == md5(data).digest():\n            data = None\n        else:\n            self._report_send_file(channel.gateway, modified_rel_path)\n    channel.send(data)" in si
    ds = _src(find("rsync.py", "RSync._send_directory_structure"))
    ok = ok and "self._broadcast((st.st_mode, st.st_mtime, st.st_size))" in ds and "self._send_directory(path)" in ds and "self._send_link_structure(path)" in ds
    sd = _src(find("rsync.py", "RSync._send_directory"))
    ok = ok and "self._broadcast([mode, *names])" in sd and "for p in subpaths:\n        self._send_directory_structure(p)" in sd
    return "true" if ok else "false"


@fact("rsync_rel_links_asis", "bool", "false")
def _rsync_rel_links_asis():
    """RSync._send_link_structure: os.path.relpath is applied to ABSOLUTE link texts only"""
    f = find("rsync.py", "RSync._send_link_structure")
    calls = [n for n in ast.walk(f) if isinstance(n, ast.Call) and _src(n.func) == "os.path.relpath"]
    if len(calls) != 1:
        return "false"
    guarded = False
    for n in ast.walk(f):
        if isinstance(n, ast.If) and _src(n.test) == "os.path.isabs(linkpoint)" and not n.orelse:
            if any(c is calls[0] for b in n.body for c in ast.walk(b)):
                guarded = True
                # relpath must be None on the other path
                body = f.body
                idx = body.index(n) if n in body else -1
                if idx <= 0 or _src(body[idx - 1]) != "relpath = None":
                    guarded = False
    return "true" if guarded else "false"


@fact("rsync_link_phase_ok", "bool", "false")
def _rsync_link_phase_ok():
    """links: 'linkbase' for a text that is a proper path below the source dir, 'link' otherwise; the receiver removes
    what is in the way and creates <destdir>/<text> resp. the text itself"""
    t = _src(find("rsync.py", "RSync._send_link_structure"))
    ok = "basename = path[len(self._sourcedir) + 1:]" in t and "linkpoint = os.readlink(path)" in t
    ok = ok and "if relpath is not None and relpath not in (os.curdir, os.pardir) and (not relpath.startswith(os.pardir + os.sep)):\n        self._send_link('linkbase', basename, relpath)\n    else:\n        self._send_link('link', basename, linkpoint)\n    self._broadcast(None)" in t
    f, _ = _rsync_recv()
    s = _src(f)
    ok = ok and "path = os.path.join(destdir, relpath)\n        with suppress(OSError):\n            remove(path)" in s
    ok = ok and "if _type == 'linkbase':\n            src = os.path.join(destdir, linkpoint)\n        else:\n            assert _type == 'link', _type\n            src = linkpoint\n        os.symlink(src, path)" in s
    return "true" if ok else "false"


# ---- C15 : what the shipped source imports and refers to ----------------------------------------------
import builtins as _builtins
import symtable as _symtable
import textwrap as _textwrap


class _StripAnn(ast.NodeTransformer):
    """annotations are not evaluated (`from __future__ import annotations`), TYPE_CHECKING blocks never run"""

    def visit_FunctionDef(self, n):
        self.generic_visit(n)
        n.returns = None
        for a in n.args.args + n.args.kwonlyargs + n.args.posonlyargs + [x for x in (n.args.vararg, n.args.kwarg) if x]:
            a.annotation = None
        return n

    visit_AsyncFunctionDef = visit_FunctionDef

    def visit_AnnAssign(self, n):
        self.generic_visit(n)
        if n.value is None:
            return None
        return ast.copy_location(ast.Assign(targets=[n.target], value=n.value), n)

    def visit_If(self, n):
        self.generic_visit(n)
        if _src(n.test) in ("TYPE_CHECKING", "typing.TYPE_CHECKING"):
            return n.orelse or None
        return n


def _names_of(source: str, future_annotations: bool):
    """(top-level definitions, names looked up in the global namespace at run time) by the compiler's symbol table"""
    t = ast.parse(source)
    if future_annotations:
        t = _StripAnn().visit(t)
        ast.fix_missing_locations(t)
    st = _symtable.symtable(ast.unparse(t), "<unit>", "exec")
    defs, uses = set(), set()
    for sym in st.get_symbols():
        if sym.is_assigned() or sym.is_imported() or sym.is_namespace():
            defs.add(sym.get_name())
        if sym.is_referenced():
            uses.add(sym.get_name())

    def rec(tab):
        for ch in tab.get_children():
            for sym in ch.get_symbols():
                if sym.is_global() and sym.is_referenced():
                    uses.add(sym.get_name())
                if sym.is_declared_global() and sym.is_assigned():
                    defs.add(sym.get_name())
            rec(ch)

    rec(st)
    # a name imported in a `try:` whose ImportError handler does not bind it is NOT defined on the fallback path (the path
    # taken on an interpreter without execnet)
    for node in t.body:
        if isinstance(node, ast.Try):
            handlers = [h for h in node.handlers if h.type is not None and "ImportError" in _src(h.type)]
            if not handlers:
                continue
            tried = {(a.asname or a.name).split(".")[0] for n in node.body if isinstance(n, (ast.Import, ast.ImportFrom)) for a in n.names}
            for h in handlers:
                bound = set()
                for n in h.body:
                    if isinstance(n, (ast.Import, ast.ImportFrom)):
                        bound |= {(a.asname or a.name).split(".")[0] for a in n.names}
                    elif isinstance(n, ast.Assign):
                        bound |= {x.id for tg in n.targets for x in ast.walk(tg) if isinstance(x, ast.Name)}
                defs -= (tried - bound)
    return defs, uses


def _imports_of(source: str):
    out = []

    def walk(node, guard):
        for ch in ast.iter_child_nodes(node):
            g = guard
            if isinstance(ch, (ast.FunctionDef, ast.AsyncFunctionDef, ast.Lambda)):
                if g[0] in ("GTop",):
                    g = ("GFunc",)
            elif isinstance(ch, ast.ClassDef):
                if ch.name.endswith("ExecModel") and g[0] == "GTop":
                    g = ("GExecModel", ch.name)
            elif isinstance(ch, ast.If):
                t = _src(ch.test)
                if t in ("TYPE_CHECKING", "typing.TYPE_CHECKING"):
                    for b in ch.body:
                        walk(ast.Module(body=[b], type_ignores=[]), ("GTypeChecking",))
                    for b in ch.orelse:
                        walk(ast.Module(body=[b], type_ignores=[]), guard)
                    continue
                if t in ("__name__ == '__main__'",) and g[0] == "GTop":
                    for b in ch.body:
                        walk(ast.Module(body=[b], type_ignores=[]), ("GMain",))
                    for b in ch.orelse:
                        walk(ast.Module(body=[b], type_ignores=[]), guard)
                    continue
            elif isinstance(ch, ast.Try):
                catches = any(h.type is None or "ImportError" in _src(h.type) or _src(h.type) in ("Exception", "BaseException") for h in ch.handlers)
                for b in ch.body:
                    walk(ast.Module(body=[b], type_ignores=[]), ("GTry",) if catches and g[0] != "GTypeChecking" else g)
                for h in ch.handlers:
                    hg = ("GExcept",) if (h.type is not None and "ImportError" in _src(h.type)) and g[0] != "GTypeChecking" else g
                    for b in h.body:
                        walk(ast.Module(body=[b], type_ignores=[]), hg)
                for b in ch.orelse + ch.finalbody:
                    walk(ast.Module(body=[b], type_ignores=[]), g)
                continue
            if isinstance(ch, ast.Import):
                for a in ch.names:
                    out.append((a.name, g))
            elif isinstance(ch, ast.ImportFrom):
                out.append(("." * ch.level + (ch.module or ""), g))
            walk(ch, g)

    walk(ast.parse(source), ("GTop",))
    return out


def _sendexec_lines(fn_name):
    """the literal source lines a bootstrap function passes to sendexec (format arguments replaced by 0)"""
    f = find("gateway_bootstrap.py", fn_name)
    lines, extra = [], []
    for node in ast.walk(f):
        if isinstance(node, ast.Call) and _src(node.func) == "sendexec":
            for a in node.args[1:]:
                if isinstance(a, ast.Constant) and isinstance(a.value, str):
                    lines.append(a.value)
                elif isinstance(a, ast.BinOp) and isinstance(a.op, ast.Mod) and isinstance(a.left, ast.Constant):
                    lines.append(a.left.value.replace("%r", "0").replace("'%s-worker'", "'x'").replace("%s", "0"))
                elif isinstance(a, ast.Call) and _src(a.func) == "inspect.getsource":
                    extra.append(_src(a.args[0]))
                else:
                    raise LookupError("sendexec argument " + _src(a))
    return lines, extra


def _c15_units():
    def read(fn):
        with open(os.path.join(SRC, fn), encoding="utf-8") as fh:
            return fh.read()

    units = []
    base_src = read("gateway_base.py")
    base_defs, base_uses = _names_of(base_src, True)
    units.append(("gateway_base.py", _imports_of(base_src), base_uses, base_defs, {"__name__", "__file__", "__doc__", "__builtins__"} & base_uses - {"__file__"}))
    # bootstrap_exec: gateway_base source + the lines after it, exec'd in __main__
    lines, extra = _sendexec_lines("bootstrap_exec")
    if extra != ["gateway_base"]:
        raise LookupError("bootstrap_exec ships " + repr(extra))
    d, u = _names_of("\n".join(lines), False)
    units.append(("bootstrap_exec lines", _imports_of("\n".join(lines)), u, base_defs | d, set()))
    # bootstrap_socket: gateway_base + import socket + SocketIO class source + lines, exec'd by the socket server
    lines, extra = _sendexec_lines("bootstrap_socket")
    if extra != ["gateway_base", "SocketIO"]:
        raise LookupError("bootstrap_socket ships " + repr(extra))
    cls = find("gateway_socket.py", "SocketIO")
    cls_src = _textwrap.dedent(ast.get_source_segment(read("gateway_socket.py"), cls))
    cd, cu = _names_of(cls_src, True)
    ld, lu = _names_of("\n".join(lines), False)
    units.append(("bootstrap_socket: SocketIO class + lines", _imports_of(cls_src) + _imports_of("\n".join(lines)), cu | lu, base_defs | cd | ld, {"clientsock", "address"}))
    # modules run by remote_exec(module) on a worker: __name__ == '__channelexec__', channel bound
    for fn in ("gateway_io.py", "script/socketserver.py", "rsync_remote.py"):
        src = read(fn)
        d, u = _names_of(src, "from __future__ import annotations" in src)
        pre = {"channel", "__name__"}
        if fn == "script/socketserver.py":
            # exec_ is defined by an exec() of a literal at import time
            m = [n for n in ast.walk(ast.parse(src)) if isinstance(n, ast.Expr) and isinstance(n.value, ast.Call) and _src(n.value.func) == "exec" and isinstance(n.value.args[0], ast.Constant)]
            for n in m:
                d |= _names_of(n.value.args[0].value, False)[0]
        units.append((fn, _imports_of(src), u, d, pre))
    # inline sources
    g = tree("gateway.py")
    rin = find("gateway.py", "rinfo_source")
    rsrc = _textwrap.dedent(ast.get_source_segment(read("gateway.py"), rin))
    d, u = _names_of(rsrc, True)
    units.append(("gateway.py:rinfo_source", _imports_of(rsrc), u, d, {"channel", "__name__"}))
    mk = find("multi.py", "Group.makegateway")
    snippets = [a.value for n in ast.walk(mk) if isinstance(n, ast.Call) and _src(n.func).endswith(".remote_exec") for a in n.args if isinstance(a, ast.Constant) and isinstance(a.value, str)]
    for i, sn in enumerate(snippets):
        sn = _textwrap.dedent(sn)
        d, u = _names_of(sn, False)
        units.append(("multi.py:makegateway snippet %d" % i, _imports_of(sn), u, d, {"channel", "__name__"}))
    return units


def _coq_guard(g):
    return g[0] if len(g) == 1 else "(%s %s)" % (g[0], coq_string(g[1]))


@fact("c15_units", "list Boot.bunit", "[Boot.Build_bunit \"unreadable\" [(\"?\", Boot.GTop)] [] [] []]")
def _c15_units_fact():
    out = []
    for name, imps, uses, defs, pre in _c15_units():
        imps = sorted(set(imps))
        out.append("Boot.Build_bunit %s [%s] [%s] [%s] [%s]" % (
            coq_string(name),
            "; ".join("(%s, %s)" % (coq_string(m), ("Boot." + g[0]) if len(g) == 1 else "(Boot.%s %s)" % (g[0], coq_string(g[1]))) for m, g in imps),
            "; ".join(coq_string(x) for x in sorted(uses)),
            "; ".join(coq_string(x) for x in sorted(defs)),
            "; ".join(coq_string(x) for x in sorted(pre))))
    return "[" + ";\n  ".join(out) + "]"


@fact("c15_stdlib", "list string", "[]")
def _c15_stdlib():
    """sys.stdlib_module_names of the interpreter that runs the translator, plus __future__"""
    names = set(sys.stdlib_module_names) | {"__future__"}
    return "[" + "; ".join(coq_string(x) for x in sorted(names)) + "]"


@fact("c15_builtins", "list string", "[]")
def _c15_builtins():
    return "[" + "; ".join(coq_string(x) for x in sorted(dir(_builtins))) + "]"


@fact("c15_bootline_ok", "bool", "false")
def _c15_bootline_ok():
    """the remote command evaluates exactly one line from stdin; sendexec writes repr(source) + newline"""
    gi = tree("gateway_io.py")
    line = None
    for n in gi.body:
        if isinstance(n, ast.Assign) and _src(n.targets[0]) == "popen_bootstrapline":
            line = n.value.value
    ok = line == "import sys;exec(eval(sys.stdin.readline()))"
    se = _src(find("gateway_bootstrap.py", "sendexec"))
    ok = ok and "source = '\\n'.join(sources)" in se and "io.write((repr(source) + '\\n').encode('utf-8'))" in se
    pa = _src(find("gateway_io.py", "popen_args"))
    ok = ok and "args.extend(['-c', popen_bootstrapline])" in pa
    ok = ok and "remotecmd = f'{remotepython} -c \"{popen_bootstrapline}\"'" in _src(find("gateway_io.py", "ssh_args"))
    bs = _src(find("gateway_bootstrap.py", "bootstrap"))
    ok = ok and "if spec.via or spec.python:\n            bootstrap_exec(io, spec)\n        else:\n            bootstrap_import(io, spec)" in bs
    return "true" if ok else "false"


# ---- C16 : transports ----------------------------------------------------------------------------------


@fact("proxy_master_ok", "bool", "false")
def _proxy_master_ok():
    """ProxyIO: read(n) is a channel-file read on the io channel (an error of that channel -- the forwarder failed -- is the end of
    the connection, EOFError, once a byte has been read; before that it is the forwarder's start-up error and is shown), write(data) sends one item, every control operation
    is one request on the control channel answered once"""
    init = _src(find("gateway_io.py", "ProxyIO.__init__"))
    ok = "self.controlchan = proxy_channel.gateway.newchannel()" in init and "proxy_channel.send(self.controlchan)" in init
    ok = ok and "self.iochan = proxy_channel" in init and "self.iochan_file = self.iochan.makefile('r')" in init
    ok = ok and [_src(n) for n in _body_nodoc(find("gateway_io.py", "ProxyIO.read"))] == ["try:\n    data = self.iochan_file.read(nbytes)\nexcept self.iochan.RemoteError as exc:\n    if not self._connected:\n        raise\n    raise EOFError('proxy io failed: %s' % (exc,)) from exc", "if data:\n    self._connected = True", "return data"]
    ok = ok and [_src(n) for n in _body_nodoc(find("gateway_io.py", "ProxyIO.write"))] == ["self.iochan.send(data)"]
    ok = ok and [_src(n) for n in _body_nodoc(find("gateway_io.py", "ProxyIO._controll"))] == ["self.controlchan.send(event)", "return self.controlchan.receive()"]
    for meth, ev in (("close_write", "RIO_CLOSE_WRITE"), ("kill", "RIO_KILL"), ("wait", "RIO_WAIT"), ("remoteaddress", "RIO_REMOTEADDRESS")):
        t = _src(find("gateway_io.py", "ProxyIO." + meth))
        ok = ok and t.count("self._controll(%s)" % ev) == 1 and t.count("_controll(") == 1
    mk = _src([n for n in find("gateway_base.py", "Channel").body if isinstance(n, ast.FunctionDef) and n.name == "makefile"][-1])
    ok = ok and "if mode == 'w':\n        return ChannelFileWrite(channel=self, proxyclose=proxyclose)\n    elif mode == 'r':\n        return ChannelFileRead(channel=self, proxyclose=proxyclose)" in mk
    ok = ok and [_src(n) for n in _body_nodoc(find("gateway_base.py", "ChannelFileWrite.write"))] == ["self.channel.send(out)"]
    return "true" if ok else "false"


@fact("proxy_forwarder_ok", "bool", "false")
def _proxy_forwarder_ok():
    """serve_proxy_io: every item from the master is written to the sub unchanged (callback), the bootstrap byte is
    read from the sub and forwarded first, then every message read from the sub is re-emitted as one item until
    EOFError; each control request performs the matching sub_io operation once and answers once"""
    f = find("gateway_io.py", "serve_proxy_io")
    t = _src(_Strip().visit(__import__("copy").deepcopy(f)))
    need = ["sub_io = create_io(spec, execmodel)", "def forward_to_sub(data: bytes) -> None:\n        sub_io.write(data)", "proxy_channelX.setcallback(forward_to_sub)",
            "control_chan.setcallback(control)", "forward_to_master_file = proxy_channelX.makefile('w')", "initial = sub_io.read(1)", "assert initial == b'1', initial",
            "forward_to_master_file.write(initial)",
            "while True:\n        try:\n            message = Message.from_io(sub_io)\n        except EOFError:\n            break\n        message.to_io(forward_to_master_file)",
            "if data == RIO_WAIT:\n            control_chan.send(sub_io.wait())\n        elif data == RIO_KILL:\n            sub_io.kill()\n            control_chan.send(None)\n        elif data == RIO_REMOTEADDRESS:\n            control_chan.send(sub_io.remoteaddress)\n        elif data == RIO_CLOSE_WRITE:\n            sub_io.close_write()\n            control_chan.send(None)"]
    ok = all(x in t for x in need)
    mk = _src(find("multi.py", "Group.makegateway"))
    ok = ok and "proxy_channel = master.remote_exec(gateway_io)" in mk and "proxy_io_master = gateway_io.ProxyIO(proxy_channel, self.execmodel)" in mk
    return "true" if ok else "false"


# ---- C06 : remote_exec ---------------------------------------------------------------------------------


@fact("init_popen_ops", "list FdTable.fdop", "[]")
def _init_popen_ops():
    """the descriptor operations of init_popen_io's POSIX branch, in source order (the win32-only block excluded);
    variables: 0 = dup of fd 0, 1 = dup of fd 1, 2 = the devnull descriptor"""
    f = find("gateway_base.py", "init_popen_io")
    top = [n for n in _body_nodoc(f) if isinstance(n, ast.If)]
    if len(top) != 1 or _src(top[0].test) != "not hasattr(os, 'dup')":
        raise LookupError("init_popen_io shape")
    ops = []
    var = {}

    def arg(a):
        if isinstance(a, ast.Constant) and isinstance(a.value, int):
            return "(FdTable.Lit %d)" % a.value
        if isinstance(a, ast.Name) and a.id in var:
            return "(FdTable.Var %d)" % var[a.id]
        raise LookupError("fd argument " + _src(a))

    def visit(stmts):
        for st in stmts:
            if isinstance(st, ast.If) and "os.name == 'nt'" in _src(st.test):
                continue
            if isinstance(st, ast.Try):
                continue   # devnull = os.devnull
            calls = [c for c in ast.walk(st) if isinstance(c, ast.Call) and _src(c.func) in ("os.dup", "os.open", "os.dup2", "os.close")]
            for c in sorted(calls, key=lambda c: (c.lineno, c.col_offset)):
                fn = _src(c.func)
                if fn == "os.dup":
                    src_fd = c.args[0].value
                    v = {0: 0, 1: 1}[src_fd]
                    ops.append("FdTable.ODup (FdTable.Lit %d) %d" % (src_fd, v))
                elif fn == "os.open":
                    if _src(c.args[0]) != "devnull":
                        raise LookupError("os.open of " + _src(c.args[0]))
                    w = {"os.O_RDONLY": "false", "os.O_WRONLY": "true"}[_src(c.args[1])]
                    if not (isinstance(st, ast.Assign) and _src(st.targets[0]) == "fd"):
                        raise LookupError("os.open result")
                    var["fd"] = 2
                    ops.append("FdTable.OOpenNull %s 2" % w)
                elif fn == "os.dup2":
                    ops.append("FdTable.ODup2 %s %s" % (arg(c.args[0]), arg(c.args[1])))
                else:
                    ops.append("FdTable.OClose %s" % arg(c.args[0]))

    visit(top[0].orelse)
    return "[" + "; ".join(ops) + "]"


@fact("init_popen_io_built_on_saved_fds", "bool", "false")
def _init_popen_io_built_on_saved_fds():
    """the IO object is built on the dup'ed descriptors, sys.stdin/sys.stdout are re-opened on fds 0/1 (devnull)"""
    t = _src(find("gateway_base.py", "init_popen_io"))
    need = ["stdin = execmodel.fdopen(os.dup(0), 'r', 1)", "stdout = execmodel.fdopen(os.dup(1), 'w', 1)", "io = Popen2IO(stdout, stdin, execmodel)",
            "sys.stdin = execmodel.fdopen(0, 'r', 1, closefd=False)", "sys.stdout = execmodel.fdopen(1, 'w', 1, closefd=False)"]
    return "true" if all(x in t for x in need) else "false"


@fact("purity_shadow_checked", "bool", "false")
def _purity_shadow_checked():
    """a Name outside co_varnames is reported unless it is a builtin that the function's module does not rebind: the
    test is `node.id not in builtins.__dict__ or shadowed(node.id)`, shadowed() looks the name up in the module globals
    passed by _source_of_function (function.__globals__)"""
    g = find("gateway.py", "_find_non_builtin_globals")
    t = _src(g)
    ok = "if node.id not in vars and (node.id not in builtins.__dict__ or shadowed(node.id)):\n                found.append(node.id)" in t
    sh = [n for n in g.body if isinstance(n, ast.FunctionDef) and n.name == "shadowed"]
    ok = ok and len(sh) == 1 and "name in module_globals" in _src(sh[0]) and "module_globals[name] is not builtins.__dict__[name]" in _src(sh[0])
    ok = ok and "used_globals = _find_non_builtin_globals(source, codeobj, function.__globals__)" in _src(find("gateway.py", "_source_of_function"))
    return "true" if ok else "false"


@fact("purity_global_stmt_checked", "bool", "false")
def _purity_global_stmt_checked():
    """every name of an ast.Global node (any depth) is reported"""
    t = _src(find("gateway.py", "_find_non_builtin_globals"))
    return "true" if "elif isinstance(node, ast.Global):\n            found.extend(node.names)" in t and "return found" in t else "false"


@fact("purity_gloads_checked", "bool", "false")
def _purity_gloads_checked():
    """_find_non_builtin_globals also reports every name that the code object or any nested one looks up with LOAD_GLOBAL /
    STORE_GLOBAL / DELETE_GLOBAL (read off the compiled code with dis) unless it is an unshadowed builtin"""
    g = _src(find("gateway.py", "_find_non_builtin_globals"))
    ok = "for name in _global_lookups(codeobj):\n        if name not in found and (name not in builtins.__dict__ or shadowed(name)):\n            found.append(name)\n    return found" in g
    h = [_src(n) for n in _body_nodoc(find("gateway.py", "_global_lookups"))]
    ok = ok and h == ["import dis", "for instruction in dis.get_instructions(codeobj):\n    if instruction.opname in ('LOAD_GLOBAL', 'STORE_GLOBAL', 'DELETE_GLOBAL'):\n        yield instruction.argval",
                      "for const in codeobj.co_consts:\n    if isinstance(const, types.CodeType):\n        yield from _global_lookups(const)"]
    return "true" if ok else "false"


@fact("purity_check_shape_ok", "bool", "false")
def _purity_check_shape_ok():
    """_source_of_function: lambda refused, first argument must be `channel`, closures refused, every ast.Name of the
    dedented source outside co_varnames and builtins refused, (firstlineno - 1) newlines prepended"""
    t = _src(find("gateway.py", "_source_of_function"))
    need = ["if function.__name__ == '<lambda>':\n        raise ValueError(", "if not args or args[0] != 'channel':\n        raise ValueError(",
            "sig = inspect.getfullargspec(function)", "args = sig.args", "if closure is not None:\n        raise ValueError(",
            "source = textwrap.dedent(source)", "if used_globals:\n        raise ValueError(", "leading_ws = '\\n' * (codeobj.co_firstlineno - 1)\n    return leading_ws + source"]
    ok = all(x in t for x in need)
    g = _src(find("gateway.py", "_find_non_builtin_globals"))
    ok = ok and "vars = dict.fromkeys(codeobj.co_varnames)" in g and "for node in ast.walk(ast.parse(source))" in g and "if isinstance(node, ast.Name):" in g and "node.id not in vars" in g
    return "true" if ok else "false"


@fact("remote_exec_shape_ok", "bool", "false")
def _remote_exec_shape_ok():
    """Gateway.remote_exec: kwargs without a function -> TypeError before anything is sent; the tuple (source, file_name,
    call_name, kwargs) travels through dumps_internal; worker: namespace with channel and __name__, compile(source + newline,
    file_name or '<remote exec>'), call by name with channel and kwargs, _executing set around it, close on every path;
    Channel.close refuses while _executing"""
    t = _src(find("gateway.py", "Gateway.remote_exec"))
    i = t.find("if not call_name and kwargs:\n        raise TypeError(")
    j = t.find("channel = self.newchannel()")
    k = t.find("self._send(Message.CHANNEL_EXEC, channel.id, gateway_base.dumps_internal((source, file_name, call_name, kwargs)))")
    ok = 0 <= i < j < k and "source = textwrap.dedent(str(source))" in t and "source = _source_of_function(source)" in t
    e = _src(find("gateway_base.py", "WorkerGateway._executetask"))
    need = ["loc: dict[str, Any] = {'channel': channel, '__name__': '__channelexec__'}", "channel._executing = True", "co = compile(source + '\\n', file_name or '<remote exec>', 'exec')", "exec(co, loc)",
            "function = loc[call_name]\n                function(channel, **kwargs)", "finally:\n            channel._executing = False", "channel.close(errortext)", "channel.close()"]
    ok = ok and all(x in e for x in need)
    c = _src(find("gateway_base.py", "Channel.close"))
    ok = ok and "if self._executing:\n        raise OSError(" in c
    return "true" if ok else "false"


# ---- C05 / C11 : termination ----------------------------------------------------------------------------


@fact("term_wait_mult", "nat", "0")
def _term_wait_mult():
    """safe_terminate bounds every wait by timeout * <mult>"""
    f = find("multi.py", "safe_terminate")
    for n in ast.walk(f):
        if isinstance(n, ast.Assign) and _src(n.targets[0]) == "wait_timeout":
            v = n.value
            if isinstance(v, ast.IfExp) and _src(v.test) == "timeout is None" and _src(v.body) == "None" and isinstance(v.orelse, ast.BinOp) and isinstance(v.orelse.op, ast.Mult) and _src(v.orelse.left) == "timeout" and isinstance(v.orelse.right, ast.Constant) and isinstance(v.orelse.right.value, int) and 0 < v.orelse.right.value < 100:
                return str(v.orelse.right.value)
    return "0"


@fact("term_safe_terminate_ok", "bool", "false")
def _term_safe_terminate_ok():
    """safe_terminate: one pool thread per member runs termkill (spawn termfunc, wait for it `timeout`, on OSError call
    killfunc); the caller waits for each termkill with the bounded wait, skips the ones still running, then a bounded waitall"""
    t = _src(find("multi.py", "safe_terminate"))
    need = ["workerpool = WorkerPool(execmodel)", "termreply = workerpool.spawn(termfunc)\n        try:\n            termreply.get(timeout=timeout)\n        except OSError:\n            killfunc()",
            "replylist = [workerpool.spawn(termkill, termfunc, killfunc) for termfunc, killfunc in list_of_paired_functions]",
            "for reply in replylist:\n        try:\n            reply.waitfinish(timeout=wait_timeout)\n        except OSError:\n            continue\n        reply.get()",
            "workerpool.waitall(timeout=wait_timeout)"]
    return "true" if all(x in t for x in need) else "false"


@fact("term_loop_joins_pending", "bool", "false")
def _term_loop_joins_pending():
    """Group.terminate's loop also runs while only exit()ed-but-unjoined gateways are left (`self._gateways_to_join`)"""
    f = find("multi.py", "Group.terminate")
    ws = [n for n in f.body if isinstance(n, ast.While)]
    if len(ws) != 1:
        raise LookupError("terminate loop")
    t = _src(ws[0].test)
    if t == "self or self._gateways_to_join":
        return "true"
    if t == "self":
        return "false"
    raise LookupError("terminate loop condition " + t)


@fact("term_vias_count_tojoin", "bool", "false")
def _term_vias_count_tojoin():
    """Group.terminate collects the via gateways over the members AND the gateways still to be joined"""
    f = find("multi.py", "Group.terminate")
    ws = [n for n in f.body if isinstance(n, ast.While)]
    fors = [n for n in ws[0].body if isinstance(n, ast.For)] if len(ws) == 1 else []
    if len(fors) != 2 or "vias.add(gw.spec.via)" not in _src(fors[0]):
        raise LookupError("terminate via loop")
    it = _src(fors[0].iter)
    if it == "[*self, *self._gateways_to_join]":
        return "true"
    if it == "self":
        return "false"
    raise LookupError("terminate via loop iterates over " + it)


@fact("term_terminate_ok", "bool", "false")
def _term_terminate_ok():
    """Group.terminate: while members remain: exit every member that is nobody's via; join + wait resp. kill of the io
    for every exited member through safe_terminate; Gateway.exit unregisters first and swallows IO errors; the popen IO's
    kill/wait act on the child process"""
    t = _src(find("multi.py", "Group.terminate"))
    need = ["while self or self._gateways_to_join:", "for gw in [*self, *self._gateways_to_join]:\n            if gw.spec.via:\n                vias.add(gw.spec.via)", "for gw in self:\n            if gw.id not in vias:\n                gw.exit()",
            "def join_wait(gw: Gateway) -> None:\n            gw.join()\n            gw._io.wait()", "gw._io.kill()",
            "safe_terminate(self.execmodel, timeout, [(partial(join_wait, gw), partial(kill, gw)) for gw in self._gateways_to_join])", "self._gateways_to_join[:] = []"]
    ok = all(x in t for x in need)
    k = [n for n in find("multi.py", "Group.terminate").body if isinstance(n, ast.While)]
    kill = [n for w in k for n in ast.walk(w) if isinstance(n, ast.FunctionDef) and n.name == "kill"]
    ok = ok and len(kill) == 1 and [_src(x) for x in _Strip().visit(__import__("copy").deepcopy(kill[0])).body] == ["gw._io.kill()"]
    e = _src(_Strip().visit(__import__("copy").deepcopy(find("gateway.py", "Gateway.exit"))))
    ok = ok and "if self not in self._group:\n        return" in e and "self._group._unregister(self)\n    try:\n        self._send(Message.GATEWAY_TERMINATE)\n        self._io.close_write()\n    except (ValueError, EOFError, OSError) as exc:" in e
    # ... and the handler of a failed exit request does nothing but trace: the gateway STAYS in the to-join list and is killed after the time-out
    ex = find("gateway.py", "Gateway.exit")
    hs = [h for n in ast.walk(ex) if isinstance(n, ast.Try) for h in n.handlers]
    ok = ok and len(hs) == 1 and [_src(x) for x in _Strip().visit(__import__("copy").deepcopy(hs[0])).body] in ([], ["pass"])
    u = _src(find("multi.py", "Group._unregister"))
    ok = ok and "self._gateways.remove(gateway)" in u and "self._gateways_to_join.append(gateway)" in u
    ok = ok and "self.popen.kill()" in _src(find("gateway_io.py", "Popen2IOMaster.kill")) and "return self.popen.wait()" in _src(find("gateway_io.py", "Popen2IOMaster.wait"))
    # makegateway registers the gateway as soon as it exists, BEFORE the remote configuration step that may fail
    mk = _src(find("multi.py", "Group.makegateway"))
    i, j = mk.find("gw.spec = spec\n    self._register(gw)"), mk.find("if spec.chdir or spec.nice or spec.env:")
    ok = ok and 0 <= i < j and mk.count("self._register(gw)") == 1
    return "true" if ok else "false"


def _ladder_consts():
    f = find("gateway_base.py", "WorkerGateway._terminate_execution")
    vals = []
    for n in ast.walk(f):
        if isinstance(n, ast.Call) and _src(n.func) == "self._execpool.waitall" and n.args and isinstance(n.args[0], ast.Constant):
            vals.append(n.args[0].value)
    if len(vals) != 2 or any(float(v) != int(v) or not (0 < v < 1000) for v in vals):
        raise LookupError("waitall constants " + repr(vals))
    return int(vals[0]), int(vals[1])


@fact("ladder_t1", "nat", "0")
def _ladder_t1():
    return str(_ladder_consts()[0])


@fact("ladder_t2", "nat", "0")
def _ladder_t2():
    return str(_ladder_consts()[1])


@fact("ladder_shape_ok", "bool", "false")
def _ladder_shape_ok():
    """_terminate_execution: trigger_shutdown; if not waitall(t1): SIGINT to ourselves (interrupt_main on win32); if not
    waitall(t2): os._exit(1).  serve(): integrate as primary thread, join the receiver, KeyboardInterrupt ends serve;
    executetask closes the channel and re-raises KeyboardInterrupt.  The epilogue reaches _terminate_execution without
    taking the receive lock (a user callback may hold it)."""
    t = _src(_Strip().visit(__import__("copy").deepcopy(find("gateway_base.py", "WorkerGateway._terminate_execution"))))
    want = ("def _terminate_execution(self) -> None:\n    self._execpool.trigger_shutdown()\n    if not self._execpool.waitall(5.0):\n        if sys.platform != 'win32':\n            os.kill(os.getpid(), 2)\n"
            "        elif interrupt_main is not None:\n            interrupt_main()\n        if not self._execpool.waitall(10.0):\n            os._exit(1)")
    t1, t2 = _ladder_consts()
    ok = t == want.replace("5.0", "%d.0" % t1).replace("10.0", "%d.0" % t2)
    sv = _src(_Strip().visit(__import__("copy").deepcopy(find("gateway_base.py", "WorkerGateway.serve"))))
    ok = ok and "self._initreceive()\n    try:\n        if hasprimary:\n            self._execpool.integrate_as_primary_thread()\n        self.join()\n    except KeyboardInterrupt:" in sv
    ex = _src(find("gateway_base.py", "WorkerGateway._executetask"))
    ok = ok and "except KeyboardInterrupt:\n        channel.close(INTERRUPT_TEXT)\n        raise" in ex
    rc = find("gateway_base.py", "BaseGateway._thread_receiver")
    locked_epilogue = any(isinstance(n, ast.With) and "_receivelock" in _src(n.items[0].context_expr) and "_finished_receiving" in _src(n) for n in ast.walk(rc))
    return "true" if ok and not locked_epilogue else "false"


# ---- C18 : channel ids -------------------------------------------------------------------------------


@fact("ids_alloc_locked", "bool", "false")
def _ids_alloc_locked():
    """ChannelFactory.new: the whole body is one `with self._writelock:`; inside, a fresh id is `id = self.count;
    self.count += <step>` under `if id is None:`"""
    f = find("gateway_base.py", "ChannelFactory.new")
    body = _body_nodoc(f)
    if len(body) != 1 or not isinstance(body[0], ast.With) or _src(body[0].items[0].context_expr) != "self._writelock":
        return "false"
    inner = body[0].body
    ifs = [n for n in inner if isinstance(n, ast.If) and _src(n.test) == "id is None"]
    if len(ifs) != 1 or ifs[0].orelse:
        return "false"
    t = [_src(n) for n in ifs[0].body]
    return "true" if len(t) == 2 and t[0] == "id = self.count" and t[1].startswith("self.count += ") else "false"


@fact("ids_adopt_keeps_count", "bool", "false")
def _ids_adopt_keeps_count():
    """nothing but __init__ and the fresh-id branch of new() assigns ChannelFactory.count (anywhere in the package)"""
    n = 0
    for fn in sorted(os.listdir(SRC)):
        if not fn.endswith(".py"):
            continue
        for node in ast.walk(tree(fn)):
            tgt = []
            if isinstance(node, ast.Assign):
                tgt = node.targets
            elif isinstance(node, (ast.AugAssign, ast.AnnAssign)):
                tgt = [node.target]
            for t in tgt:
                for sub in ast.walk(t):
                    if isinstance(sub, ast.Attribute) and sub.attr == "count" and not _src(sub).startswith("self._"):
                        n += 1
            if isinstance(node, ast.Call) and _src(node.func) in ("setattr",) and len(node.args) > 1 and "count" in _src(node.args[1]):
                n += 100
    # exactly two: `self.count = startcount` and `self.count += step`
    init = _src(find("gateway_base.py", "ChannelFactory.__init__"))
    return "true" if n == 2 and "self.count = startcount" in init else "false"


@fact("ids_step", "nat", "0")
def _ids_step():
    f = find("gateway_base.py", "ChannelFactory.new")
    for node in ast.walk(f):
        if isinstance(node, ast.AugAssign) and _src(node.target) == "self.count" and isinstance(node.op, ast.Add) and isinstance(node.value, ast.Constant) and isinstance(node.value.value, int) and 0 <= node.value.value < 100:
            return str(node.value.value)
    return "0"


def _startcount_of(fn, qual, callee):
    f = find(fn, qual) if qual else tree(fn)
    vals = []
    for node in ast.walk(f):
        if isinstance(node, ast.Call) and _src(node.func).endswith(callee):
            for kw in node.keywords:
                if kw.arg == "_startcount" and isinstance(kw.value, ast.Constant) and isinstance(kw.value.value, int) and 0 <= kw.value.value < 100:
                    vals.append(kw.value.value)
    if len(vals) != 1:
        raise LookupError(callee)
    return vals[0]


@fact("ids_start_initiator", "nat", "0")
def _ids_start_initiator():
    """Gateway.__init__ -> BaseGateway.__init__(_startcount=1) -> ChannelFactory(self, _startcount)"""
    bg = _src(find("gateway_base.py", "BaseGateway.__init__"))
    if "self._channelfactory = ChannelFactory(self, _startcount)" not in bg:
        raise LookupError("BaseGateway.__init__")
    return str(_startcount_of("gateway.py", "Gateway.__init__", "__init__"))


@fact("ids_start_worker", "nat", "1")
def _ids_start_worker():
    """serve(): WorkerGateway(io=io, id=id, _startcount=2); no other construction of a WorkerGateway in the package"""
    n = 0
    for fn in sorted(os.listdir(SRC)):
        if fn.endswith(".py"):
            for node in ast.walk(tree(fn)):
                if isinstance(node, ast.Call) and _src(node.func).endswith("WorkerGateway"):
                    n += 1
    if n != 1:
        raise LookupError("WorkerGateway constructed %d times" % n)
    return str(_startcount_of("gateway_base.py", "serve", "WorkerGateway"))


@fact("ids_codec_by_id", "bool", "false")
def _ids_codec_by_id():
    """a Channel is serialised as its id and unserialised by ChannelFactory.new(id) on the receiving gateway;
    the tables are a WeakValueDictionary (objects) and a dict popped by _no_longer_opened"""
    sv = _src(find("gateway_base.py", "_Serializer.save_Channel"))
    ld = _src(find("gateway_base.py", "Unserializer.load_channel"))
    init = _src(find("gateway_base.py", "ChannelFactory.__init__"))
    ok = "self._write_int4(channel.id)" in sv and "id = self._read_int4()" in ld and "newchannel = self.channelfactory.new(id)" in ld and "self.stack.append(newchannel)" in ld
    ok = ok and "weakref.WeakValueDictionary()" in init
    return "true" if ok else "false"


@fact("reconf_handler_creates_object", "bool", "true")
def _reconf_handler_creates_object():
    """does the handler of a per-channel RECONFIGURE instantiate a Channel object (ChannelFactory.new / Channel(...))?
    (the pinned handler did: `factory.new(id)._strconfig = strconfig`)"""
    h = find("gateway_base.py", "Message._reconfigure")
    src = _src(h)
    calls = [n.func.attr for n in ast.walk(h) if isinstance(n, ast.Call) and isinstance(n.func, ast.Attribute)]
    if ".new(" in src or "Channel(" in src:
        return "true"
    if calls.count("_local_reconfigure") != 1:
        raise ValueError("RECONFIGURE handler: unknown shape")
    lr = _src(find("gateway_base.py", "ChannelFactory._local_reconfigure"))
    if ".new(" in lr or "Channel(" in lr:
        return "true"
    nw = [_src(n) for n in _body_nodoc(find("gateway_base.py", "ChannelFactory.new"))]
    want_new = ["with self._writelock:\n    if self.finished:\n        raise OSError(f'connection already closed: {self.gateway}')\n    if id is None:\n        id = self.count\n        self.count += 2\n    try:\n        channel = self._channels[id]\n    except KeyError:\n        channel = self._channels[id] = Channel(self.gateway, id)\n        strconfig = self._strconfigs.pop(id, None)\n        if id in self._callbacks:\n            channel._items = None\n            if strconfig is None:\n                strconfig = self._callbacks[id][2]\n        if strconfig is not None:\n            channel._strconfig = strconfig\n    return channel"]
    want_lr = ["channel = self._channels.get(id)", "item = self._callbacks.get(id)", "if channel is not None:\n    channel._strconfig = strconfig", "if item is not None:\n    self._callbacks[id] = (item[0], item[1], strconfig)", "if channel is None and item is None:\n    self._strconfigs[id] = strconfig\n    while len(self._strconfigs) > 100:\n        del self._strconfigs[next(iter(self._strconfigs))]"]
    got_lr = [_src(n) for n in _body_nodoc(find("gateway_base.py", "ChannelFactory._local_reconfigure"))]
    if nw != want_new or got_lr != want_lr:
        raise ValueError("new() / _local_reconfigure: not the modelled shape")
    return "false"


@fact("ids_tables_forget_ok", "bool", "false")
def _ids_tables_forget_ok():
    """every per-channel table of the ChannelFactory is emptied by _no_longer_opened, and the RECONFIGURE handler never
    instantiates a Channel object (dropping it again would send CHANNEL_CLOSE for a channel that is merely being configured)"""
    init = find("gateway_base.py", "ChannelFactory.__init__")
    tables = []
    for st in ast.walk(init):
        tgt = None
        if isinstance(st, ast.AnnAssign):
            tgt, val = st.target, st.value
        elif isinstance(st, ast.Assign) and len(st.targets) == 1:
            tgt, val = st.targets[0], st.value
        if tgt is not None and isinstance(tgt, ast.Attribute) and val is not None:
            v = unparse(val)
            if v in ("{}", "dict()", "[]", "set()") or "Dictionary(" in v or "defaultdict" in v:
                tables.append(tgt.attr)
    nlo = _src(find("gateway_base.py", "ChannelFactory._no_longer_opened"))
    ok = sorted(tables) == ["_callbacks", "_channels", "_strconfigs"] and all(f"self.{t}.pop(id, None)" in nlo for t in tables)
    h = _src(find("gateway_base.py", "Message._reconfigure"))
    ok = ok and "gateway._channelfactory._local_reconfigure(message.channelid, strconfig)" in h and ".new(" not in h and "Channel(" not in h
    lr = _src(find("gateway_base.py", "ChannelFactory._local_reconfigure"))
    ok = ok and ".new(" not in lr and "Channel(" not in lr and "self._strconfigs[id] = strconfig" in lr
    nw = _src(find("gateway_base.py", "ChannelFactory.new"))
    ok = ok and "self._strconfigs.pop(id, None)" in nw
    ld = _src(find("gateway_base.py", "Unserializer.load_channel"))
    ok = ok and "self.channelfactory." not in ld.replace("self.channelfactory.new(id)", "")
    return "true" if ok else "false"


DIGESTS = [
    ("gateway_base.py", "WorkerGateway._local_schedulexec"),
    ("gateway_base.py", "WorkerGateway.executetask"),
    ("gateway_base.py", "WorkerGateway._executetask"),
    ("gateway_base.py", "WorkerGateway.serve"),
    ("gateway_base.py", "WorkerPool"),
    ("gateway_base.py", "Reply"),
    ("gateway_base.py", "_Serializer"),
    ("gateway_base.py", "Unserializer"),
    ("gateway_base.py", "dumps"),
    ("gateway_base.py", "loads"),
    ("gateway_base.py", "load"),
    ("gateway_base.py", "loads_internal"),
    ("gateway_base.py", "dumps_internal"),
    ("gateway_base.py", "Channel.send"),
    ("gateway_base.py", "Message.to_io"),
    ("gateway_base.py", "Message.from_io"),
    ("gateway_base.py", "Popen2IO.read"),
    ("gateway_base.py", "Popen2IO.write"),
    ("gateway_socket.py", "SocketIO.read"),
    ("gateway_socket.py", "SocketIO.write"),
    ("gateway_base.py", "BaseGateway._send"),
    ("xspec.py", "XSpec.__init__"),
    ("multi.py", "Group.allocate_id"),
    ("multi.py", "Group._register"),
    ("multi.py", "Group._unregister"),
    ("multi.py", "Group.__getitem__"),
    ("multi.py", "Group.__contains__"),
    ("multi.py", "safe_terminate"),
    ("multi.py", "Group.terminate"),
    ("multi.py", "Group.makegateway"),
    ("gateway.py", "Gateway.exit"),
    ("gateway_base.py", "WorkerGateway._terminate_execution"),
    ("gateway.py", "_source_of_function"),
    ("gateway.py", "_find_non_builtin_globals"),
    ("gateway_base.py", "init_popen_io"),
    ("gateway_io.py", "ProxyIO"),
    ("gateway_io.py", "serve_proxy_io"),
    ("gateway_socket.py", "SocketIO"),
    ("rsync.py", "RSync"),
    ("rsync_remote.py", "serve_rsync"),
    ("gateway_base.py", "Channel.setcallback"),
    ("gateway_base.py", "Channel.waitclose"),
    ("gateway_base.py", "Channel._getremoteerror"),
    ("gateway.py", "Gateway.remote_exec"),
    ("gateway.py", "Gateway.hasreceiver"),
    ("gateway_base.py", "Channel.receive"),
    ("gateway_base.py", "Channel.close"),
    ("gateway_base.py", "Channel.__del__"),
    ("gateway_base.py", "ChannelFactory"),
    ("gateway_base.py", "BaseGateway._thread_receiver"),
    ("gateway_base.py", "ChannelFileRead.read"),
    ("gateway_base.py", "ChannelFileRead.readline"),
    ("gateway_base.py", "ChannelFileWrite"),
    ("gateway_base.py", "ChannelFile.close"),
]


def main() -> int:
    lines = [
        "(* GENERATED by tools/gen_facts.py from %s on every run -- do not edit *)" % SRC,
        "From Coq Require Import ZArith List String.",
        "Import ListNotations.",
        "Require Import EV.model.Cfg EV.model.GroupIds EV.model.Ids EV.model.Boot EV.model.FdTable.",
        "Open Scope string_scope.",
        "",
    ]
    js: dict[str, object] = {"facts": {}, "errors": {}, "digests": {}}
    for name, typ, unknown, f in FACTS:
        try:
            term = f()
        except Exception as e:  # fail closed
            term = unknown
            js["errors"][name] = f"{type(e).__name__}: {e}"
        js["facts"][name] = term
        lines.append(f"Definition {name} : {typ} := {term}.")
    lines.append("Definition ids_cfg : Ids.icfg := {| Ids.alloc_locked := ids_alloc_locked; Ids.adopt_keeps_count := ids_adopt_keeps_count; Ids.startA := ids_start_initiator; Ids.startB := ids_start_worker; Ids.step := ids_step |}.")
    lines.append("Definition group_cfg : GroupIds.gcfg := {| GroupIds.alloc_read_locked := grp_alloc_read_locked; GroupIds.explicit_checked := grp_explicit_checked; GroupIds.register_atomic := grp_register_atomic |}.")
    js["ranges"] = {}
    for fn, q in DIGESTS:
        js["digests"][f"{fn}:{q}"] = digest(fn, q)
        try:
            node = find(fn, q)
            js["ranges"][f"{fn}:{q}"] = [node.lineno, node.end_lineno]
        except LookupError:
            pass
    text = "\n".join(lines) + "\n"
    js["facts_digest"] = hashlib.sha256(text.encode()).hexdigest()[:16]
    os.makedirs(os.path.dirname(OUT_V), exist_ok=True)
    old = None
    if os.path.exists(OUT_V):
        with open(OUT_V) as fh:
            old = fh.read()
    if old != text:  # keep the timestamp when nothing changed so that make does not rebuild
        with open(OUT_V, "w") as fh:
            fh.write(text)
    with open(OUT_J, "w") as fh:
        json.dump(js, fh, indent=1, sort_keys=True)
    return 0


if __name__ == "__main__":
    sys.exit(main())
