#!/usr/bin/env python3
"""writes /verif/MANIFEST.json from the table below (kept in one place so it stays valid)"""
import json, os

ROOT = os.path.dirname(os.path.dirname(os.path.abspath(__file__)))
ALL = ["C%02d" % i for i in range(1, 21)]

BASE_NOTE = ("Trusted: Coq 8.16.1 kernel (vm_compute used, no native_compute); no axioms (Print Assumptions parsed on every run: 'Closed under the global context'); "
             "translator tools/gen_facts.py; extraction with ExtrOcamlBasic only + ocaml/modelrun.ml; the Python harness. ")

CLAIMS = {
 "C19": dict(
   text="Theorem (Coq, unbounded): for every symbol type, newline test, split of a stream into items (empty items included) and every sequence of read(n>=0)/readline() calls, the channel-file model returns exactly what a file over the concatenation returns, and only empty results after the end. The model is tied to the code by facts regenerated from the source (newline recognition, loop comparison) that the property file must prove, and by a differential run of the extracted model, the real ChannelFileRead/ChannelFileWrite and io.StringIO/BytesIO on exhaustive small and random larger cases.",
   design_ref="7.17",
   note=BASE_NOTE + "Modelled not verified: Python str/bytes slicing and concatenation; channel.receive() delivering items in order then EOFError (that is C02/C03). read(n<0) is outside the statement.",
   technique="Coq refinement proof (channel file refines file-over-concatenation) + extracted-model differential correspondence"),
 "C20": dict(
   text="Theorems (Coq, unbounded): (1) every specification text built from unique well-formed keys and values parses to exactly those attributes (True for bare keys, env: keys in env, None for absent names), for all key/value lists over all code points; a repeated key of either kind gives ValueError. (2) For any number of concurrent makegateway/exit calls under every interleaving of their micro-steps, registered ids are pairwise distinct and automatically allocated ids are pairwise distinct; lookup by id / index / membership agree on such a group. Tied to the code by regenerated facts (duplicate test covers env keys; counter read+increment under the lock; membership test and append under one lock), by a differential run of the extracted parser model against the real XSpec, and by trace inclusion of real Group.makegateway runs (stub gateways) under a deterministic scheduler with line-level preemption into the terminal states of the id model.",
   design_ref="7.20",
   note=BASE_NOTE + "Modelled not verified: Python str.split/find/slicing, dict order; assert statements effective (no -O); gateway creation stubbed in the id part (process handling is C05). Boundary: a non-final piece ending in '/' makes the text ambiguous (C20_ambiguous_example). Open finding: key 'env' is rejected.",
   technique="Coq proofs (parser round-trip by induction; LTS invariant over all interleavings) + extracted-model differential + scheduler-driven trace inclusion"),
 "C08": dict(
   text="Theorems (Coq, unbounded): any sequence of well-formed messages (all type bytes, ids over the signed 32-bit range, payload lengths below 2^31) written back to back is decoded identically for EVERY chunking of the low-level reads; with atomic frame writes, for any number of concurrent senders and every interleaving the peer decodes exactly the frames written, each sender's in order (and a two-sender witness shows non-atomic writes corrupt the stream). Tied to the code by regenerated facts (header format and size, exactly one write call per frame, exact-read loops, buffered-file write for pipes, sendall under a lock for sockets) and by running the extracted model against the real Message.to_io/from_io, Popen2IO and SocketIO over scripted files/sockets (chunk oracles, cuts, malformed length fields) and real BaseGateway._send threads under the deterministic scheduler; thorough adds OS pipes and socketpairs with 4 threads x 1 MiB frames.",
   design_ref="7.4",
   note=BASE_NOTE + "Assumed: A-bufw (one BufferedWriter.write call is atomic across threads), the kernel delivers bytes reliably and in order; struct pack/unpack as modelled. The proxied transport is C16.",
   technique="Coq proofs (codec round-trip for all chunkings; interleaving invariant) + facts on write shapes + differential/scheduler correspondence"),
 "C01": dict(
   text="Theorems (Coq, unbounded, by induction over the recursive value grammar with a nested induction principle): for EVERY well-formed value (None, bool, int of any size and sign, float/complex as 64-bit patterns, bytes, strings of Unicode scalar values, list, tuple, dict with insertion order, set, frozenset; any depth and width) dumps succeeds and loads returns exactly that value with nothing left over, also via dumps_internal/loads_internal with channel objects; and any value with an unsupported leaf or a lone surrogate at ANY position is rejected with DumpError. The opcode stack machine, UTF-8, decimal text and big-endian fields are modelled byte by byte. Tie: facts (lower bound of the 4-byte branch, version, cut-over, serialise-before-send) and a differential run of the extracted model against execnet.dumps/loads/dump/load and real Channel.send->frame->receive on generated values (bytes and values compared).",
   design_ref="7.1",
   note=BASE_NOTE + "Modelled not verified: struct pack/unpack of doubles is the identity on bit patterns (A-ieee), CPython's UTF-8 codec and int<->decimal text equal Utf8.v/Decimal.v, dict/set iteration order is taken as given. Outside the model and listed as open findings: int digit limit (3.11+), recursion limit of the recursive saver, name-colliding subclasses.",
   technique="Coq proof: loader stack machine run on the saver's output pushes the value (structural induction), plus extracted-model differential correspondence"),
 "C12": dict(
   text="Theorems/obligations (Coq): the opcode table, the opcode->loader registrations, the save_<type>->opcode uses, version byte, cut-over, float formats and coercion defaults REGENERATED from the current source equal the literal dump-format-v2 tables written down in CodecSpec.v (by reflexivity: a shifted opcode letter breaks the obligation); hand-written golden byte vectors for every type; the legacy Python-2 opcodes (PY2STRING, UNICODE, LONG, LONGLONG) and PY3STRING load as documented for all strings/ints under all four coercion settings; any foreign version byte gives DataFormatError; round trip in this format (C01). Tie: byte-for-byte comparison of execnet.dumps with the extracted reference encoder, legacy streams from an independent encoder under the 4 settings vs documented table vs model, all 255 foreign version bytes, coercion defaults and Channel.reconfigure reaching the peer; thorough adds CPython 3.10/3.11/3.13.",
   design_ref="7.2",
   note=BASE_NOTE + "The reference for 'format version 2' is CodecSpec.v as written from the format description; interoperability with real old execnet releases / Python 2 interpreters is represented by the independent legacy encoder, not by running them.",
   technique="Coq: regenerated tables = literal spec tables (reflexivity), golden vectors (vm_compute), legacy-opcode lemmas; byte-exact differential"),
 "C13": dict(
   text="Theorems (Coq, for EVERY byte string, coercion setting and allocation bound): loads is total (the fuel |bytes|+1 never decides the result); its result is a value built only from supported builtin types (no channel object, no foreign object) or LoadError/EOFError (or the separately tracked memory demand) and nothing else; a successful load is unaffected by appended bytes; no strict prefix of a valid dump loads. Tie: facts (exact-length read helper with EOFError/LoadError, catch-all conversion to LoadError in Unserializer.load) and a differential run of the extracted machine against execnet.loads on all prefixes, single-byte substitutions/deletions/insertions of valid dumps, opcode soups with adversarial length fields under the 4 settings and random bytes (result class and value compared; per-call hang detection).",
   design_ref="7.3",
   note=BASE_NOTE + "Python == / hash for dict keys and set members of hostile streams is modelled in Value.v (numeric tower, NaN, +-0, tuples, frozensets). NEWLIST lengths above 2^20 are not executed on the implementation (open finding named in the property text).",
   technique="Coq proofs over the opcode stack machine (fuel irrelevance, error typing, extension lemma => prefix theorem) + extracted-model differential on hostile inputs"),
 "C09": dict(
   text="Theorems (Coq, invariant by induction over arbitrary schedules of a labelled transition system with ANY number of spawner threads, worker threads, trigger_shutdown callers and waitall callers and an optional integrated primary thread, thread and main_thread_only): in every reachable state every accepted task has been started at most once and, while not started, has exactly one holder; in every terminal state every accepted task has run exactly once and finished (no task is lost by shutdown), _running is empty, no waitall caller is blocked, and after shutdown the primary thread has left; waitall/terminate return True only if every task accepted before the call has finished; spawn after shutdown is refused and changes nothing; a 9-step witness shows the ORIGINAL code losing a task. Tie: regenerated facts (what trigger_shutdown and the primary loop do; atomicity structure of spawn/_perform_spawn/waitall) and trace inclusion: outcomes of the real WorkerPool under a deterministic scheduler (sync-point and line-level preemption, virtual clock) must be terminal outcomes of the exhaustively explored model, plus direct monitors on thousands of schedules.",
   design_ref="7.12",
   note=BASE_NOTE + "Assumed: each shared access between two synchronisation calls is atomic (GIL), as the step granularity of the model; Event/Lock/Queue of the execmodel behave as specified; main_thread_only pools are driven by the gateway's submission protocol. Reply.get/waitfinish result passing is checked by the harness only.",
   technique="Coq proof: 33-clause invariant preserved by all 26 step rules, lifted to all schedules; terminal-state (deadlock-freedom style) theorems; scheduler-driven trace inclusion"),
 "C14": dict(
   text="Theorems (Coq, for every history of body outcomes of any length and every interleaving of submissions, receiver thread and main thread): a deadlock RemoteError for exec k implies an earlier body is really still running (started, blocked, not closed) -- so none after the previous channel closed, whether that body returned, raised, exited or was interrupted; bodies are started one at a time in arrival order by the single main thread; while a body runs the completion event is unset so an overlapping exec can only get the deadlock error and does not disturb it; a witness shows the ORIGINAL code reporting a false deadlock after a raising body. Tie: regenerated facts (completion event set in a finally covering every exit; wait(1)/deadlock-close/clear/spawn order) and a differential run of real Gateway+WorkerGateway pairs (main_thread_only, in one process over scripted pipes, deterministic scheduler, virtual clock) on all histories of length <= 2 and random longer ones against the extracted model and the property itself.",
   design_ref="7.13",
   note=BASE_NOTE + "A-sched (a runnable main thread reaches set() within the 1 s window) is an assumption built into the model's time-out rule and the harness's virtual clock. Python's exec/compile of the body are real but not modelled.",
   technique="Coq invariant proof over a small LTS (receiver/main/completion event) + scheduler-driven differential on the real gateway pair"),
 "C02": dict(
   text="Theorem (Coq, invariant over ALL interleavings of peer sends/closes, the receiver thread, any number of consumer threads calling receive(), setcallback, channel creation and garbage collection, unbounded): for every channel id on which the receiving side dropped nothing, items obtained by consumers ++ queued items ++ in-flight items = the items sent on that id, in order -- no loss, duplicate, reordering or cross-channel delivery. Tie: regenerated facts (receiver handles each message under _receivelock, setcallback body entirely under it, shapes of receive/_local_receive/_local_close, send serialises before writing), step-by-step differential of the model's transition function against the real ChannelFactory/Channel on random operation sequences, and generated channel programs on a real Gateway/WorkerGateway pair under a deterministic scheduler with monitors for the property itself.",
   design_ref="7.7", note=BASE_NOTE + "Assumed: each shared access between two synchronisation calls is atomic (GIL) -- the model's step granularity (one handled frame / one queue get / one put-back / one setcallback under the receive lock, justified by the regenerated lock-region facts); frame integrity is C08, item encoding C01. Local Channel.close() and the sending side are exercised by the harness, not part of the Coq model. Connection loss is C04.",
   technique="Coq invariant proof over a channel LTS (7-clause invariant, 8 step rules) + facts on lock regions + step differential + scheduler-driven programs on the real gateway pair"),
 "C03": dict(
   text="Theorems (Coq, same LTS, all interleavings, any number of concurrent receivers): every item queue is data followed only by ENDMARKERs (data always before EOF); once a channel is receive-closed an ENDMARKER is in its queue or in the hand of a receiver that is putting it back, so EOFError is persistent and reaches every receiver; a receive-closed channel is unregistered, so nothing is enqueued afterwards. Tie: facts (receive blocks in get(timeout=timeout), re-puts the ENDMARKER before raising; _local_close appends the error before queueing the ENDMARKER, unregisters, then sets the flags), step differential, scheduler-driven programs incl. two concurrent receivers with preemption between get and put-back.",
   design_ref="7.8", note=BASE_NOTE + "Assumed: each shared access between two synchronisation calls is atomic (GIL) -- the model's step granularity (one handled frame / one queue get / one put-back / one setcallback under the receive lock, justified by the regenerated lock-region facts); frame integrity is C08, item encoding C01. Local Channel.close() and the sending side are exercised by the harness, not part of the Coq model. Connection loss is C04.",
   technique="Coq invariant proof (queue shape, ENDMARKER conservation across holders) + facts + step differential + scheduler-driven programs"),
 "C07": dict(
   text="Theorem (Coq, all interleavings): pending errors plus errors already raised to consumers never exceed the CLOSE_ERROR frames handled for that id (an error is raised at most once, never invented); witness: the first receive meeting the ENDMARKER raises the error, later ones EOFError. Obligations from the source: a raising callback sends CHANNEL_CLOSE_ERROR with the text AND closes the channel locally with that error (the pinned tree did not: fixed, see known_findings.json); error appended before the ENDMARKER. Harness: generated programs where the remote body raises / a callback raises (channel kept or dropped), consumers by receive/iter/callback/waitclose/two receivers: exactly one RemoteError carrying type and message, then EOFError; other channels undisturbed.",
   design_ref="7.9", note=BASE_NOTE + "Assumed: each shared access between two synchronisation calls is atomic (GIL) -- the model's step granularity (one handled frame / one queue get / one put-back / one setcallback under the receive lock, justified by the regenerated lock-region facts); frame integrity is C08, item encoding C01. Local Channel.close() and the sending side are exercised by the harness, not part of the Coq model. Connection loss is C04.",
   technique="Coq invariant (error accounting) + facts on the error path + scheduler-driven programs with monitors"),
 "C10": dict(
   text="Theorems (Coq, all interleavings): items obtained by receive() before setcallback, those replayed by setcallback and those handed to the callback afterwards are together exactly a prefix of what was sent, in order (same conservation theorem as C02 with callback deliveries in the obtained list); endmarker callbacks fired + registrations still pending = registrations made (each endmarker exactly once, at close); a channel with a callback has no queue (receive and a second setcallback are refused). The whole replay-and-register step is one transition because setcallback's body sits under the receive lock -- a regenerated fact; the seeded change releasing the lock early breaks it and the search finds the reordering. Tie as C02, plus 'callback_mid' programs where items arrive while setcallback replays.",
   design_ref="7.10", note=BASE_NOTE + "Assumed: each shared access between two synchronisation calls is atomic (GIL) -- the model's step granularity (one handled frame / one queue get / one put-back / one setcallback under the receive lock, justified by the regenerated lock-region facts); frame integrity is C08, item encoding C01. Local Channel.close() and the sending side are exercised by the harness, not part of the Coq model. Connection loss is C04.",
   technique="Coq invariant proof (conservation incl. callbacks, endmarker counting) + lock-region fact + step differential + scheduler-driven programs"),
 "C04": dict(
   text="Theorems (Coq, unbounded): a stream of well-formed frames cut at ANY byte offset and read with ANY chunking decodes to a prefix of the frames (complete frames only, unaltered) and then ends; in every state reachable by any interleaving in which the receiver's epilogue has run, no channel or callback remains registered, every requested endmarker has fired exactly once, every Channel object still held has an ENDMARKER in its queue or in the hand of a receiver putting it back (so every blocked or later receive of any thread ends with EOFError, none blocks forever), obtained plus still-receivable items are a prefix of the sent ones, nothing is delivered and no channel can be created afterwards, and this is final. Tie: regenerated facts (exact reads raise EOFError with text on both transports, from_io, the epilogue's order, _finished_receiving, new() refusing, _send mapping to OSError, hasreceiver, stored error raised by receive/waitclose), step differential incl. the epilogue operation, and real gateway pairs over the real Popen2IO and SocketIO with the peer->survivor stream cut at every byte offset crossed with schedules and blocked receivers / waitclose callers / callbacks.",
   design_ref="7.5",
   note=BASE_NOTE + "Assumed: A-eof (the kernel ends the stream when the peer dies), A-epipe (writing to a closed pipe/socket raises OSError/ValueError), GIL step granularity. waitclose's Event and the virtual clock are harness-level; real SIGKILLs of worker processes are in the thorough tier only as far as the sandbox allows. Defect found and fixed: SocketIO.read's bare EOFError (known_findings.json).",
   technique="Coq proofs (cut-anywhere codec theorem; finish-step invariant over the channel LTS) + facts + step differential + exhaustive cut offsets x schedules on the real gateway pair (pipe and socket IO)"),
 "C18": dict(
   text="Theorems (Coq, unbounded): for any number of allocating threads on each side and every interleaving of their read-counter/write-counter steps and of adoptions of peer ids, all ids handed out on the two sides are pairwise distinct (initiator ids odd, worker ids even); witnesses: without the lock two threads get the same id; bumping the counter on adoption collides. Handling the peer's close for an id leaves neither channel nor callback registered, and only new(id)/setcallback register. Tie: facts (new() entirely under _writelock, counter assigned only in __init__ and the fresh-id branch, step 2, start counts 1/2 read from Gateway.__init__ and serve(), channels serialised by id and re-created by new(id), WeakValueDictionary), differential of the id model against two real ChannelFactory objects, programs passing channels over channels in both directions with both tables back to baseline afterwards.",
   design_ref="7.11", note=BASE_NOTE + "Assumed: each shared access between two synchronisation calls is atomic (GIL) -- the model's step granularity (one handled frame / one queue get / one put-back / one setcallback under the receive lock, justified by the regenerated lock-region facts); frame integrity is C08, item encoding C01. Local Channel.close() and the sending side are exercised by the harness, not part of the Coq model. Connection loss is C04.",
   technique="Coq invariant proof (parity, monotone counter, lock => NoDup) + facts + differential + scheduler-driven programs"),
}

REASON_TODO = "not claimed yet: model and theorems for this property are not built yet in this development (see DESIGN.md section 12 build order)"

def main():
    checks = []
    for p in ALL:
        if p in CLAIMS:
            c = CLAIMS[p]
            checks.append({
                "property_id": p,
                "quick_cmd": f"./check {p} --tier quick",
                "thorough_cmd": f"./check {p} --tier thorough",
                "evidence_file": f"/verif/evidence/{p}.json",
                "replay_cmd_template": f"./check {p} --replay {{path}}",
                "engine": "coq-proof+correspondence",
                "level_claimed": {"category": "proof", "text": c["text"], "design_ref": "DESIGN.md section " + c["design_ref"]},
                "level_note": c["note"],
                "technique": c["technique"],
            })
    m = {
        "version": 1,
        "setup_cmd": "./setup.sh",
        "hooks": {
            "guard": "EXECNET_VERIF",
            "enable": "no source hooks are needed: the checks drive unmodified execnet through its own seams (custom ExecModel instances, scripted IO objects); EXECNET_VERIF is reserved and unused",
            "baseline_off_cmd": "cd /repo && PYTHONPATH=/repo/src /venv/bin/python -m pytest -ra -q -p no:cacheprovider --timeout=900 --continue-on-collection-errors",
            "source_commits": [],
            "add_only": True,
        },
        "engines": [{
            "name": "coq-proof+correspondence", "path": "/verif/check",
            "serves_properties": sorted(CLAIMS),
            "kind_free_text": "Coq 8.16.1 theorems over executable Gallina models (coq/), facts regenerated from /repo/src by tools/gen_facts.py, extracted OCaml model (ocaml/modelrun) compared with the implementation by harness/props/*.py",
        }],
        "checks": checks,
        "notes": "Every check regenerates coq/gen/Facts.v from /repo/src, rebuilds what depends on it, recompiles coq/props/<id>.v (Print Assumptions parsed), then runs the correspondence between the extracted model and the implementation imported from /repo/src (PYTHONPATH forced; the installed site-packages copy is never used). known_findings.json lists genuine defects (open / fixed).",
        "not_applicable": [{"property_id": p, "reason": REASON_TODO} for p in ALL if p not in CLAIMS],
    }
    json.dump(m, open(os.path.join(ROOT, "MANIFEST.json"), "w"), indent=1)

if __name__ == "__main__":
    main()
