#!/bin/bash
# run every claimed check (quick tier) on the current tree; prints one line per check
cd /verif
for p in $(python3 -c "import json; print(' '.join(c['property_id'] for c in json.load(open('MANIFEST.json'))['checks']))"); do
  t0=$(date +%s); ./check $p --tier ${1:-quick} > /tmp/runall_$p.out 2>&1; rc=$?; t1=$(date +%s)
  echo "$p rc=$rc $((t1-t0))s $(grep -c '^VIOLATION' /tmp/runall_$p.out) violations | $(tail -1 /tmp/runall_$p.out | cut -c1-150)"
done
