#!/bin/bash
# independent re-check of every compiled property module (and everything it depends on) with coqchk; writes coq/coqchk_report.txt
cd /verif/coq
: > coqchk_report.txt
for p in props/C*.vo; do
  m=EV.props.$(basename $p .vo)
  t0=$(date +%s)
  out=$(timeout 1800 coqchk -silent -o -Q . EV $m 2>&1); rc=$?
  t1=$(date +%s)
  echo "== $m rc=$rc $((t1-t0))s" >> coqchk_report.txt
  echo "$out" | sed -n '/CONTEXT SUMMARY/,$p' >> coqchk_report.txt
  [ $rc -ne 0 ] && echo "$out" | tail -5 >> coqchk_report.txt
done
grep -c "rc=0" coqchk_report.txt
