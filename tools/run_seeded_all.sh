#!/bin/bash
# apply every seeded change in turn, run that property's quick check, undo; one summary line each
cd /verif
for d in seeded/C*/ seeded/C*/round*/; do
  [ -f $d/patch.diff ] || continue
  p=$(echo $d | sed 's#seeded/\(C[0-9]*\)/.*#\1#')
  f=$d/patch.diff; [ -f $d/patch_rebased.diff ] && f=$d/patch_rebased.diff
  out=$(tools/try_seeded.sh $p $f quick 2>&1)
  nv=$(echo "$out" | grep -c '^VIOLATION')
  nf=$(echo "$out" | grep '^VIOLATION' | grep -vc 'no-failing-input-found')
  echo "$p $d $(basename $f) violations=$nv with_failing_input=$nf $(echo "$out" | grep -E 'quick:' | sed 's/.*obligations/obligations/' | cut -c1-60) $(echo "$out" | grep -E 'does not apply' | head -1)"
done
git -C /repo status --short | head -3
