#!/bin/bash
# run every claimed check under several seeds (as `vp check` does with VERIF_SEED=1); one line per alarm
cd /verif
for sd in ${@:-1 2 3}; do
  for p in $(python3 -c "import json; print(' '.join(c['property_id'] for c in json.load(open('MANIFEST.json'))['checks']))"); do
    cp evidence/$p.json /var/tmp/ev_$p.json 2>/dev/null
    VERIF_SEED=$sd ./check $p --tier quick > /var/tmp/runseed_$p.out 2>&1; rc=$?
    [ -f /var/tmp/ev_$p.json ] && mv /var/tmp/ev_$p.json evidence/$p.json
    if [ $rc -ne 0 ] || grep -q '^VIOLATION' /var/tmp/runseed_$p.out; then echo "seed=$sd $p rc=$rc $(grep '^VIOLATION' /var/tmp/runseed_$p.out | head -3 | tr '\n' ' ')"; fi
  done
  echo "seed $sd done"
done
rm -f /var/tmp/runseed_*.out
