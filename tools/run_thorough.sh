#!/bin/bash
# every claimed check in the thorough tier, sequentially; evidence files are restored afterwards (quick evidence is what is committed)
cd /verif
for p in ${@:-$(python3 -c "import json; print(' '.join(c['property_id'] for c in json.load(open('MANIFEST.json'))['checks']))")}; do
  cp evidence/$p.json /var/tmp/evq_$p.json 2>/dev/null
  t0=$(date +%s); timeout 7200 ./check $p --tier thorough > /var/tmp/thorough_$p.out 2>&1; rc=$?; t1=$(date +%s)
  cp evidence/$p.json /var/tmp/thorough_evidence_$p.json 2>/dev/null
  [ -f /var/tmp/evq_$p.json ] && mv /var/tmp/evq_$p.json evidence/$p.json
  echo "$p rc=$rc $((t1-t0))s $(grep -c '^VIOLATION' /var/tmp/thorough_$p.out) violations | $(tail -1 /var/tmp/thorough_$p.out | cut -c1-160)"
done
