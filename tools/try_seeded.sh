#!/bin/bash
# usage: try_seeded.sh <prop> <patch.diff> [tier]  -- apply a seeded change to /repo, run the check, undo
prop=$1; patch=$(realpath $2); tier=${3:-quick}
cd /repo || exit 2
if [ -n "$(git status --porcelain --untracked-files=no)" ]; then echo "repo dirty"; exit 2; fi
git apply "$patch" || { echo "patch does not apply"; git reset -q --hard HEAD; exit 2; }
cp /verif/evidence/$prop.json /var/tmp/evidence_$prop.bak 2>/dev/null
cd /verif && ./check $prop --tier $tier > /tmp/seeded_$prop.out 2>&1; rc=$?
cp /var/tmp/evidence_$prop.bak /verif/evidence/$prop.json 2>/dev/null
grep -E "^(VIOLATION|KNOWN-FINDING|C[0-9]+ )" /tmp/seeded_$prop.out | cut -c1-300 | head -12
echo "exit=$rc"
git -C /repo checkout -- . 
exit 0
