#!/bin/bash
# record the digests of the modelled functions of the current /repo tree as the baseline for targeted schedule search
cd /verif && /venv/bin/python tools/gen_facts.py && python3 - <<'PY'
import json
d=json.load(open('/verif/coq/gen/facts.json'))
b=json.load(open('/verif/digests_baseline.json'))
b["digests"]=d["digests"]
json.dump(b, open('/verif/digests_baseline.json','w'), indent=1, sort_keys=True)
print(len(d["digests"]), "digests recorded")
PY
